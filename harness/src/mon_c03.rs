//! C03 — guest memory reads and writes behave like one flat sparse byte array.
//! Oracle: byte model over the interval model; every region (and its mapping slack and backing
//! file) is re-read through an independent path after every step.

use crate::common::gen::edge_u64;
use crate::common::out::{self, J};
use crate::common::prng::Rng;
use crate::common::{guarded, panic_sig, Args};
use crate::models::layout::TOP;
use crate::models::world::{build_mmap, build_mock, compare, resync, small_layout, Backing, Flat, RawRegion};
use crate::mon_c04::t_from_bytes;
use std::io::Cursor;
use std::mem::{align_of, size_of};
use std::sync::atomic::Ordering;
use vm_memory::guest_memory::Error as GErr;
use vm_memory::{AtomicAccess, ByteValued, Bytes, GuestAddress, GuestMemory, GuestMemoryRegion, MemoryRegionAddress};

fn v(backend: &str, sig: &str, flat: &Flat, d: J) {
    out::viol(
        &format!("C03/{}/{}", backend, sig),
        jobj! {"layout" => J::A(flat.lay.regions.iter().map(|(s, l)| J::S(format!("{:#x}+{:#x}", s, l))).collect()), "detail" => d},
    );
}

fn gerr(e: &GErr) -> String {
    match e {
        GErr::InvalidGuestAddress(a) => format!("InvalidGuestAddress({:#x})", a.0),
        GErr::IOError(e) => format!("IOError({:?})", e.kind()),
        GErr::PartialBuffer { expected, completed } => format!("PartialBuffer{{expected:{},completed:{}}}", expected, completed),
        GErr::InvalidBackendAddress => "InvalidBackendAddress".into(),
        GErr::HostAddressNotAvailable => "HostAddressNotAvailable".into(),
        GErr::CallbackOutOfRange => "CallbackOutOfRange".into(),
        GErr::GuestAddressOverflow => "GuestAddressOverflow".into(),
    }
}

struct H<'a> {
    backend: &'static str,
    flat: Flat,
    raws: &'a [RawRegion],
    trace: Vec<String>,
    bad: bool,
}

impl H<'_> {
    fn fail(&mut self, sig: &str, d: J) {
        self.bad = true;
        let tr: Vec<String> = self.trace.iter().rev().take(3).cloned().collect();
        v(self.backend, sig, &self.flat, jobj! {"detail" => d, "recent_ops" => tr});
    }
    fn frame(&mut self, op: &str) {
        if let Some(diff) = compare(&self.flat, self.raws) {
            self.fail(&format!("{}/memory-differs-from-model", op), J::s(diff));
            resync(&self.flat, self.raws);
        }
    }
    fn start_class(&self, a: u64) -> &'static str {
        self.flat.lay.pos_class(a as u128)
    }
    fn regions_crossed(&self, a: u64, n: usize) -> usize {
        if n == 0 {
            return 0;
        }
        let mut cnt = 0;
        for (s, l) in &self.flat.lay.regions {
            if (a as u128) < s + l && *s < a as u128 + n as u128 {
                cnt += 1;
            }
        }
        cnt
    }
}

fn len_rel(len: usize, run: u128) -> &'static str {
    if run == 0 {
        "unmapped"
    } else if (len as u128) < run {
        "len<run"
    } else if len as u128 == run {
        "len=run"
    } else {
        "len>run"
    }
}

/// write / read / write_slice / read_slice
fn op_bytes<M: GuestMemory>(h: &mut H, mem: &M, a: u64, len: usize, write: bool, slice_form: bool, r: &mut Rng) {
    if len == 0 {
        return; // empty buffers belong to C18
    }
    let run = h.flat.lay.run(a as u128);
    let n = (len as u128).min(run) as usize;
    let name = match (write, slice_form) {
        (true, false) => "write",
        (false, false) => "read",
        (true, true) => "write_slice",
        (false, true) => "read_slice",
    };
    h.trace.push(format!("{}(len {}, addr {:#x})", name, len, a));
    let data = r.bytes(len);
    let mut buf = vec![0xA5u8; len];
    let ga = GuestAddress(a);
    // outcome as (Ok(count) | Err(string))
    let res: Result<usize, GErr> = match (write, slice_form) {
        (true, false) => mem.write(&data, ga),
        (false, false) => mem.read(&mut buf, ga),
        (true, true) => mem.write_slice(&data, ga).map(|()| len),
        (false, true) => mem.read_slice(&mut buf, ga).map(|()| len),
    };
    let mut moved = 0usize;
    let outcome;
    match (&res, slice_form) {
        (Ok(k), false) if n > 0 && *k == n => {
            moved = n;
            outcome = if n == len { "ok" } else { "short" };
        }
        (Ok(_), true) if n == len => {
            moved = n;
            outcome = "ok";
        }
        (Err(GErr::PartialBuffer { expected, completed }), true) if n > 0 && n < len && *expected == len && *completed == n => {
            moved = n;
            outcome = "partial";
        }
        (Err(GErr::InvalidGuestAddress(x)), _) if n == 0 && x.0 == a => outcome = "invalid",
        _ => {
            h.fail(&format!("{}/result", name), jobj! {"addr" => a, "len" => len, "run" => run.min(u64::MAX as u128) as u64, "got" => J::s(match &res { Ok(k) => format!("Ok({})", k), Err(e) => gerr(e) })});
            return;
        }
    }
    if write {
        h.flat.write(a as u128, &data[..moved]);
    } else {
        let want = h.flat.read(a as u128, moved);
        if buf[..moved] != want[..] {
            h.fail(&format!("{}/data", name), jobj! {"addr" => a, "len" => len, "moved" => moved});
        }
        if buf[moved..].iter().any(|b| *b != 0xA5) {
            h.fail(&format!("{}/buffer-tail-modified", name), jobj! {"addr" => a, "len" => len, "moved" => moved});
        }
    }
    out::key(&format!("{}|{}|x{}|{}|{}|{}", name, outcome, h.regions_crossed(a, moved), h.start_class(a), len_rel(len, run), h.backend), true);
    h.frame(name);
}

fn op_obj<T: ByteValued + std::fmt::Debug, M: GuestMemory>(h: &mut H, mem: &M, a: u64, write: bool, r: &mut Rng, tn: &str) {
    let len = size_of::<T>();
    let run = h.flat.lay.run(a as u128);
    let n = (len as u128).min(run) as usize;
    let name = if write { "write_obj" } else { "read_obj" };
    h.trace.push(format!("{}::<{}>(addr {:#x})", name, tn, a));
    let data = r.bytes(len);
    let ga = GuestAddress(a);
    let res: Result<Option<T>, GErr> = if write { mem.write_obj(t_from_bytes::<T>(&data), ga).map(|()| None) } else { mem.read_obj::<T>(ga).map(Some) };
    let outcome = match &res {
        Ok(val) if n == len => {
            if write {
                h.flat.write(a as u128, &data);
            } else if val.as_ref().unwrap().as_slice() != &h.flat.read(a as u128, len)[..] {
                h.fail("read_obj/data", jobj! {"type" => tn, "addr" => a});
            }
            "ok"
        }
        Err(GErr::PartialBuffer { expected, completed }) if n > 0 && n < len && *expected == len && *completed == n => {
            if write {
                h.flat.write(a as u128, &data[..n]);
            }
            "partial"
        }
        Err(GErr::InvalidGuestAddress(x)) if n == 0 && x.0 == a => "invalid",
        _ => {
            h.fail(&format!("{}/result", name), jobj! {"type" => tn, "addr" => a, "run" => run.min(u64::MAX as u128) as u64, "got" => J::s(match &res { Ok(_) => "Ok".to_string(), Err(e) => gerr(e) })});
            return;
        }
    };
    out::key(&format!("{}|{}|{}|x{}|{}|{}", name, tn, outcome, h.regions_crossed(a, n), h.start_class(a), h.backend), true);
    h.frame(name);
}

fn op_atomic<T: AtomicAccess + std::fmt::Debug, M: GuestMemory>(h: &mut H, mem: &M, a: u64, store: bool, r: &mut Rng, tn: &str) {
    let len = size_of::<T>();
    let name = if store { "store" } else { "load" };
    h.trace.push(format!("{}::<{}>(addr {:#x})", name, tn, a));
    let one = h.flat.lay.within_one(a as u128, len as u128);
    let aligned = one.map_or(false, |(i, off)| (h.raws[i].ptr as usize + off as usize) % align_of::<T::A>() == 0);
    let data = r.bytes(len);
    let ga = GuestAddress(a);
    let res: Result<Option<T>, GErr> = if store { mem.store(t_from_bytes::<T>(&data), ga, Ordering::SeqCst).map(|()| None) } else { mem.load::<T>(ga, Ordering::SeqCst).map(Some) };
    let outcome = match (&res, one.is_some() && aligned) {
        (Ok(val), true) => {
            if store {
                h.flat.write(a as u128, &data);
            } else if val.as_ref().unwrap().as_slice() != &h.flat.read(a as u128, len)[..] {
                h.fail("load/data", jobj! {"type" => tn, "addr" => a});
            }
            "ok"
        }
        (Err(_), false) => "err",
        _ => {
            h.fail(&format!("{}/result", name), jobj! {"type" => tn, "addr" => a, "in_one_region" => one.is_some(), "aligned" => aligned, "got_ok" => res.is_ok()});
            return;
        }
    };
    out::key(&format!("{}|{}|{}|{}|{}", name, tn, outcome, h.start_class(a), h.backend), true);
    h.frame(name);
}

struct Chunky<'a> {
    data: &'a [u8],
    pos: usize,
    chunk: usize,
    calls: usize,
}
impl vm_memory::ReadVolatile for Chunky<'_> {
    fn read_volatile<B: vm_memory::bitmap::BitmapSlice>(&mut self, buf: &mut vm_memory::VolatileSlice<B>) -> Result<usize, vm_memory::VolatileMemoryError> {
        self.calls += 1;
        let n = buf.len().min(self.chunk).min(self.data.len() - self.pos);
        buf.write_slice(&self.data[self.pos..self.pos + n], 0)?;
        self.pos += n;
        Ok(n)
    }
}
struct ChunkySink<'a> {
    out: &'a mut Vec<u8>,
    chunk: usize,
}
impl vm_memory::WriteVolatile for ChunkySink<'_> {
    fn write_volatile<B: vm_memory::bitmap::BitmapSlice>(&mut self, buf: &vm_memory::VolatileSlice<B>) -> Result<usize, vm_memory::VolatileMemoryError> {
        let n = buf.len().min(self.chunk);
        let mut tmp = vec![0u8; n];
        buf.read_slice(&mut tmp, 0)?;
        self.out.extend_from_slice(&tmp);
        Ok(n)
    }
}

/// stream forms with in-memory streams
fn op_stream<M: GuestMemory>(h: &mut H, mem: &M, a: u64, count: usize, which: u64, r: &mut Rng) {
    let run = h.flat.lay.run(a as u128);
    let ga = GuestAddress(a);
    if count == 0 {
        return;
    }
    match which {
        0 | 1 => {
            // read_volatile_from / read_exact_volatile_from with a slice or cursor source
            let slen = match r.below(4) {
                0 => count,
                1 => count + r.usize_below(9),
                2 => r.usize_below(count + 1),
                _ => count + 40,
            };
            let exact = which == 1;
            // exact form is specified for a stream of sufficient length
            let slen = if exact { slen.max(count) } else { slen };
            let src = r.bytes(slen);
            let name = if exact { "read_exact_volatile_from" } else { "read_volatile_from" };
            h.trace.push(format!("{}(addr {:#x}, count {}, stream {})", name, a, count, slen));
            let src_kind = r.below(3);
            let (res, consumed): (Result<usize, GErr>, usize) = if src_kind == 2 {
                // a source that only ever delivers a few bytes per call (pipe / socket behaviour)
                let mut c = Chunky { data: &src[..], pos: 0, chunk: 1 + r.usize_below(7), calls: 0 };
                let res = if exact { mem.read_exact_volatile_from(ga, &mut c, count).map(|()| count) } else { mem.read_volatile_from(ga, &mut c, count) };
                out::count("chunked_stream_transfers", 1);
                (res, c.pos)
            } else if src_kind == 1 {
                let mut c = Cursor::new(&src[..]);
                let res = if exact { mem.read_exact_volatile_from(ga, &mut c, count).map(|()| count) } else { mem.read_volatile_from(ga, &mut c, count) };
                (res, c.position() as usize)
            } else {
                let mut s = &src[..];
                let res = if exact { mem.read_exact_volatile_from(ga, &mut s, count).map(|()| count) } else { mem.read_volatile_from(ga, &mut s, count) };
                (res, slen - s.len())
            };
            let n = (count as u128).min(run).min(slen as u128) as usize;
            let outcome;
            match &res {
                Ok(k) if !exact && *k == n && n > 0 => outcome = if n == count { "ok" } else { "short" },
                Ok(_) if exact && n == count => outcome = "ok",
                Err(GErr::PartialBuffer { expected, completed }) if exact && n > 0 && n < count && *expected == count && *completed == n => outcome = "partial",
                Err(GErr::InvalidGuestAddress(x)) if run == 0 && x.0 == a => outcome = "invalid",
                Ok(0) if !exact && slen == 0 && run > 0 => outcome = "empty-stream",
                _ => {
                    h.fail(&format!("{}/result", name), jobj! {"addr" => a, "count" => count, "stream" => slen, "run" => run.min(u64::MAX as u128) as u64, "got" => J::s(match &res { Ok(k) => format!("Ok({})", k), Err(e) => gerr(e) })});
                    return;
                }
            }
            let moved = if run == 0 { 0 } else { n };
            h.flat.write(a as u128, &src[..moved]);
            if consumed != moved {
                h.fail(&format!("{}/stream-consumption", name), jobj! {"consumed" => consumed, "stored" => moved});
            }
            out::key(&format!("{}|{}|x{}|{}|{}|{}", name, outcome, h.regions_crossed(a, moved), h.start_class(a), len_rel(count, run), h.backend), true);
            h.frame(name);
        }
        _ => {
            let exact = which == 3;
            let name = if exact { "write_all_volatile_to" } else { "write_volatile_to" };
            h.trace.push(format!("{}(addr {:#x}, count {})", name, a, count));
            let mut sink: Vec<u8> = vec![0x77; 3];
            let res = if r.chance(1, 2) {
                if exact { mem.write_all_volatile_to(ga, &mut sink, count).map(|()| count) } else { mem.write_volatile_to(ga, &mut sink, count) }
            } else {
                // a sink that accepts only a few bytes per call
                let mut cs = ChunkySink { out: &mut sink, chunk: 1 + r.usize_below(7) };
                out::count("chunked_stream_transfers", 1);
                if exact { mem.write_all_volatile_to(ga, &mut cs, count).map(|()| count) } else { mem.write_volatile_to(ga, &mut cs, count) }
            };
            let n = (count as u128).min(run) as usize;
            let outcome;
            match &res {
                Ok(k) if !exact && *k == n && n > 0 => outcome = if n == count { "ok" } else { "short" },
                Ok(_) if exact && n == count => outcome = "ok",
                Err(GErr::PartialBuffer { expected, completed }) if exact && n > 0 && n < count && *expected == count && *completed == n => outcome = "partial",
                Err(GErr::InvalidGuestAddress(x)) if run == 0 && x.0 == a => outcome = "invalid",
                _ => {
                    h.fail(&format!("{}/result", name), jobj! {"addr" => a, "count" => count, "run" => run.min(u64::MAX as u128) as u64, "got" => J::s(match &res { Ok(k) => format!("Ok({})", k), Err(e) => gerr(e) })});
                    return;
                }
            }
            let want = h.flat.read(a as u128, n);
            if sink[..3] != [0x77, 0x77, 0x77] || sink[3..] != want[..] {
                h.fail(&format!("{}/sink-data", name), jobj! {"addr" => a, "count" => count, "sink_len" => sink.len() - 3, "want_len" => n});
            }
            out::key(&format!("{}|{}|x{}|{}|{}|{}", name, outcome, h.regions_crossed(a, n), h.start_class(a), len_rel(count, run), h.backend), true);
            h.frame(name);
        }
    }
}

/// the "until the stream ends" use of the up-to forms: a count far beyond anything mapped (around
/// 2^63, 2^64 - addr, usize::MAX) with a stream of bounded length. What moves is bounded by the
/// stream and by the mapped run, never by the count, and `addr + count` wrapping must not matter.
fn op_stream_huge<M: GuestMemory>(h: &mut H, mem: &M, a: u64, which: u64, r: &mut Rng) {
    let run = h.flat.lay.run(a as u128);
    let ga = GuestAddress(a);
    let to_top = (0u64.wrapping_sub(a)) as usize; // 2^64 - a (0 for a == 0)
    let count = match r.below(7) {
        0 => usize::MAX,
        1 => usize::MAX - r.usize_below(0x3000),
        2 => to_top.wrapping_add(r.usize_below(3)).wrapping_sub(1).max(1),
        3 => to_top.wrapping_add(r.usize_below(0x2000)).max(1),
        4 => 1usize << 63,
        5 => isize::MAX as usize - r.usize_below(3),
        _ => (1usize << (33 + r.below(30))) + r.usize_below(3),
    };
    let slen = match r.below(4) {
        0 => 0,
        1 => r.usize_below(9),
        2 => (run.min(0x4000) as usize) + r.usize_below(40),
        _ => r.usize_below(run.min(0x4000) as usize + 1),
    };
    let n = (count as u128).min(run).min(slen as u128) as usize;
    if which == 0 || run > 0x10000 {
        let src = r.bytes(slen);
        h.trace.push(format!("read_volatile_from(addr {:#x}, count {:#x}, stream {})", a, count, slen));
        let (res, consumed) = if r.chance(1, 2) {
            let mut s = &src[..];
            let res = mem.read_volatile_from(ga, &mut s, count);
            (res, slen - s.len())
        } else {
            let mut c = Chunky { data: &src[..], pos: 0, chunk: 1 + r.usize_below(700), calls: 0 };
            let res = mem.read_volatile_from(ga, &mut c, count);
            (res, c.pos)
        };
        let ok = match &res {
            Ok(k) => run > 0 && *k == n,
            Err(GErr::InvalidGuestAddress(x)) => run == 0 && x.0 == a,
            _ => false,
        };
        if !ok {
            h.fail("read_volatile_from(huge-count)/result", jobj! {"addr" => a, "count" => count, "stream" => slen, "run" => run.min(u64::MAX as u128) as u64, "want" => n, "got" => J::s(match &res { Ok(k) => format!("Ok({})", k), Err(e) => gerr(e) })});
            return;
        }
        let moved = if run == 0 { 0 } else { n };
        h.flat.write(a as u128, &src[..moved]);
        if consumed != moved {
            h.fail("read_volatile_from(huge-count)/stream-consumption", jobj! {"consumed" => consumed, "stored" => moved});
        }
        out::key(&format!("read_volatile_from(huge-count)|x{}|{}|{}", h.regions_crossed(a, moved), h.start_class(a), h.backend), true);
        h.frame("read_volatile_from(huge-count)");
    } else {
        // a growing sink takes everything: the mapped run is what ends the transfer
        let n = (count as u128).min(run) as usize;
        h.trace.push(format!("write_volatile_to(addr {:#x}, count {:#x})", a, count));
        let mut sink: Vec<u8> = vec![0x77; 3];
        let res = if r.chance(1, 2) {
            mem.write_volatile_to(ga, &mut sink, count)
        } else {
            let mut cs = ChunkySink { out: &mut sink, chunk: 1 + r.usize_below(700) };
            mem.write_volatile_to(ga, &mut cs, count)
        };
        let ok = match &res {
            Ok(k) => run > 0 && *k == n,
            Err(GErr::InvalidGuestAddress(x)) => run == 0 && x.0 == a,
            _ => false,
        };
        if !ok {
            h.fail("write_volatile_to(huge-count)/result", jobj! {"addr" => a, "count" => count, "run" => run.min(u64::MAX as u128) as u64, "want" => n, "got" => J::s(match &res { Ok(k) => format!("Ok({})", k), Err(e) => gerr(e) })});
            return;
        }
        let moved = if run == 0 { 0 } else { n };
        let want = h.flat.read(a as u128, moved);
        if sink[..3] != [0x77, 0x77, 0x77] || sink[3..] != want[..] {
            h.fail("write_volatile_to(huge-count)/sink-data", jobj! {"addr" => a, "count" => count, "sink_len" => sink.len() - 3, "want_len" => moved});
        }
        out::key(&format!("write_volatile_to(huge-count)|x{}|{}|{}", h.regions_crossed(a, moved), h.start_class(a), h.backend), true);
        h.frame("write_volatile_to(huge-count)");
    }
}

/// `try_access` called directly: the chunks handed to the callback walk the run in order - chunk k
/// starts at guest address a + (bytes handled so far), lies inside one region, is as long as that
/// region and the remaining count allow - also when the callback makes only partial progress.
fn op_try_access<M: GuestMemory>(h: &mut H, mem: &M, a: u64, count: usize, r: &mut Rng) {
    if count == 0 {
        return;
    }
    let run = h.flat.lay.run(a as u128);
    if r.chance(1, 10) && run > 0 {
        // a callback that claims more than the whole request: never Ok with more than `count`
        let over = mem.try_access(count, GuestAddress(a), |_off, len, _caddr, _reg| Ok(len.saturating_add(count)));
        match over {
            Ok(t) if t > count => h.fail("try_access/over-reporting-callback-accepted", jobj! {"addr" => a, "count" => count, "got" => t}),
            _ => {}
        }
        out::key("try_access|over-reporting-callback", true);
        return;
    }
    let partial = r.chance(1, 2);
    let stop_after = if r.chance(1, 4) { Some(r.usize_below(4)) } else { None };
    h.trace.push(format!("try_access(addr {:#x}, count {}, partial {}, stop_after {:?})", a, count, partial, stop_after));
    let mut chunks: Vec<(usize, usize, u64, u64)> = vec![]; // offset, len, region start, caddr
    let mut seed = r.next();
    let mut calls = 0usize;
    let res = mem.try_access(count, GuestAddress(a), |off, len, caddr, reg| {
        chunks.push((off, len, reg.start_addr().0, caddr.0));
        calls += 1;
        if stop_after == Some(calls - 1) {
            return Ok(0);
        }
        seed = seed.wrapping_mul(6364136223846793005).wrapping_add(1442695040888963407);
        Ok(if partial && len > 1 { 1 + (seed >> 33) as usize % len } else { len })
    });
    // replay the model
    let limit = (count as u128).min(run) as usize;
    let mut total = 0usize;
    let mut seed2 = 0u64;
    let _ = seed2;
    for (k, (off, len, rstart, caddr)) in chunks.iter().enumerate() {
        let g = a as u128 + total as u128;
        let reg = h.flat.lay.region_of(g);
        let want_len = reg.map(|i| {
            let (s, l) = h.flat.lay.regions[i];
            ((s + l - g).min((count - total) as u128)) as usize
        });
        let ok = *off == total && reg.is_some() && Some(*len) == want_len && reg.map_or(false, |i| h.flat.lay.regions[i].0 == *rstart as u128) && *rstart as u128 + *caddr as u128 == g;
        if !ok {
            h.fail("try_access/chunk", jobj! {"addr" => a, "count" => count, "chunk_index" => k, "chunk" => J::dbg(&(off, len, rstart, caddr)), "handled_so_far" => total, "want_len" => J::dbg(&want_len)});
            return;
        }
        // how far did the callback go? reconstruct from the next chunk's offset / the result
        let next_off = chunks.get(k + 1).map(|c| c.0);
        let progressed = match next_off {
            Some(n) if n >= total && n - total <= *len => n - total,
            Some(_) => {
                h.fail("try_access/offset-sequence", jobj! {"addr" => a, "count" => count, "chunks" => J::dbg(&chunks)});
                return;
            }
            None => match &res {
                Ok(t) if *t >= total && *t - total <= *len => *t - total,
                _ => 0,
            },
        };
        total += progressed;
    }
    match &res {
        Ok(t) => {
            if *t != total || *t > limit || (stop_after.is_none() && !partial && *t != limit) || *t == 0 && run > 0 && stop_after != Some(0) {
                h.fail("try_access/result", jobj! {"addr" => a, "count" => count, "got" => *t, "limit" => limit, "chunks" => J::dbg(&chunks)});
                return;
            }
        }
        Err(GErr::InvalidGuestAddress(x)) if run == 0 && x.0 == a && chunks.is_empty() => {}
        Err(e) => {
            h.fail("try_access/result", jobj! {"addr" => a, "count" => count, "got" => gerr(e), "run" => run.min(u64::MAX as u128) as u64, "chunks" => J::dbg(&chunks)});
            return;
        }
    }
    out::key(&format!("try_access|{}|chunks{}|{}|{}|{}", if partial { "partial-progress" } else { "full-progress" }, chunks.len().min(4), h.start_class(a), len_rel(count, run), h.backend), true);
    h.frame("try_access");
}

/// region-level byte access (Bytes<MemoryRegionAddress>)
fn op_region<M: GuestMemory>(h: &mut H, mem: &M, r: &mut Rng) {
    let i = r.usize_below(h.flat.lay.regions.len());
    let (s, l) = h.flat.lay.regions[i];
    let reg = mem.iter().nth(i).unwrap();
    let off = match r.below(5) {
        0 => l as u64,
        1 => (l as u64).saturating_sub(1),
        2 => l as u64 + 1 + r.below(5),
        _ => r.below(l as u64 + 1),
    };
    if r.chance(1, 3) {
        // region-level stream transfers (up-to forms cap at the end of the region; the count may be
        // anything, including values whose sum with the offset overflows)
        let rem = if (off as u128) < l { (l - off as u128) as usize } else { 0 };
        let count = match r.below(8) {
            0 => usize::MAX,
            1 => (usize::MAX - off as usize).saturating_add(1),
            2 => usize::MAX - off as usize,
            3 => 1usize << 63,
            4 => rem,
            5 => rem + 1,
            _ => 1 + r.usize_below(20),
        };
        let reading = r.chance(1, 2);
        let cap = rem.min(48);
        h.trace.push(format!("region{}.{}(count {:#x}, off {})", i, if reading { "read_volatile_from" } else { "write_volatile_to" }, count, off));
        if reading {
            let src = r.bytes(cap.min(count));
            let mut stream = &src[..];
            let res = reg.read_volatile_from(MemoryRegionAddress(off), &mut stream, count);
            let want = rem.min(count).min(src.len());
            match &res {
                Ok(k) if *k == want && (rem > 0 || want == 0) => h.flat.write(s + off as u128, &src[..want]),
                Err(_) if rem == 0 => {}
                _ => {
                    h.fail("region.read_volatile_from/result", jobj! {"region" => i, "off" => off, "count" => count, "region_len" => l as u64, "want" => want, "got" => J::s(match &res { Ok(k) => format!("Ok({})", k), Err(e) => gerr(e) })});
                    return;
                }
            }
        } else {
            // a sink with room for `cap` bytes only, so that huge counts stay cheap
            let mut room = vec![0u8; cap];
            let mut dst = &mut room[..];
            let res = reg.write_volatile_to(MemoryRegionAddress(off), &mut dst, count);
            let left = dst.len();
            let want = rem.min(count).min(cap);
            match &res {
                Ok(k) if *k == want && cap - left == want => {
                    if room[..want] != h.flat.read(s + off as u128, want)[..] {
                        h.fail("region.write_volatile_to/sink-data", jobj! {"region" => i, "off" => off, "count" => count});
                    }
                }
                Err(_) if rem == 0 || want == 0 => {}
                _ => {
                    h.fail("region.write_volatile_to/result", jobj! {"region" => i, "off" => off, "count" => count, "region_len" => l as u64, "want" => want, "got" => J::s(match &res { Ok(k) => format!("Ok({})", k), Err(e) => gerr(e) })});
                    return;
                }
            }
        }
        out::key(&format!("region.{}|{}|{}|{}", if reading { "read_volatile_from" } else { "write_volatile_to" }, if rem == 0 { "beyond" } else if off == 0 { "off0" } else { "off>0" }, if count > usize::MAX - off as usize { "count-overflows" } else if count > rem { "count>rem" } else { "count<=rem" }, h.backend), true);
        h.frame("region-stream");
        return;
    }
    let len = 1 + r.usize_below(20);
    let n = if (off as u128) < l { (len as u128).min(l - off as u128) as usize } else { 0 };
    let write = r.chance(1, 2);
    h.trace.push(format!("region{}.{}(len {}, off {})", i, if write { "write" } else { "read" }, len, off));
    let data = r.bytes(len);
    let mut buf = vec![0u8; len];
    let res = if write { reg.write(&data, MemoryRegionAddress(off)) } else { reg.read(&mut buf, MemoryRegionAddress(off)) };
    match &res {
        Ok(k) if n > 0 && *k == n => {
            if write {
                h.flat.write(s + off as u128, &data[..n]);
            } else if buf[..n] != h.flat.read(s + off as u128, n)[..] {
                h.fail("region-read/data", jobj! {"region" => i, "off" => off, "len" => len});
            }
        }
        Err(_) if n == 0 => {}
        _ => {
            h.fail("region-access/result", jobj! {"region" => i, "off" => off, "len" => len, "region_len" => l as u64, "got" => J::s(match &res { Ok(k) => format!("Ok({})", k), Err(e) => gerr(e) })});
            return;
        }
    }
    out::key(&format!("region.{}|{}|{}", if write { "write" } else { "read" }, if n == 0 { "err" } else if n < len { "short" } else { "ok" }, h.backend), true);
    h.frame("region-access");
}

fn pick_addr(h: &H, r: &mut Rng) -> u64 {
    let pairs: Vec<(u64, u64)> = h.flat.lay.regions.iter().map(|(s, l)| (*s as u64, *l as u64)).collect();
    edge_u64(r, &pairs).0
}

fn pick_len(h: &H, a: u64, r: &mut Rng) -> usize {
    let run = h.flat.lay.run(a as u128).min(1 << 20) as usize;
    match r.below(8) {
        0 => 1,
        1 => run.saturating_sub(1).max(1),
        2 => run.max(1),
        3 => run + 1,
        4 => run + 1 + r.usize_below(40),
        5 => 1 + r.usize_below(24),
        _ => 1 + r.usize_below(run + 8),
    }
}

fn history<M: GuestMemory>(mem: &M, h: &mut H, r: &mut Rng, nops: u64) {
    for _ in 0..nops {
        let a = pick_addr(h, r);
        let k = r.below(100);
        match k {
            0..=29 => {
                let len = pick_len(h, a, r);
                op_bytes(h, mem, a, len, r.chance(1, 2), r.chance(1, 2), r);
            }
            30..=49 => {
                let w = r.chance(1, 2);
                match r.below(8) {
                    0 => op_obj::<u8, M>(h, mem, a, w, r, "u8"),
                    1 => op_obj::<u16, M>(h, mem, a, w, r, "u16"),
                    2 => op_obj::<u32, M>(h, mem, a, w, r, "u32"),
                    3 => op_obj::<u64, M>(h, mem, a, w, r, "u64"),
                    4 => op_obj::<u128, M>(h, mem, a, w, r, "u128"),
                    5 => op_obj::<[u8; 3], M>(h, mem, a, w, r, "[u8;3]"),
                    6 => op_obj::<[u64; 4], M>(h, mem, a, w, r, "[u64;4]"),
                    _ => op_obj::<[u16; 5], M>(h, mem, a, w, r, "[u16;5]"),
                }
            }
            50..=61 => {
                let st = r.chance(1, 2);
                match r.below(4) {
                    0 => op_atomic::<u8, M>(h, mem, a, st, r, "u8"),
                    1 => op_atomic::<u16, M>(h, mem, a, st, r, "u16"),
                    2 => op_atomic::<u32, M>(h, mem, a, st, r, "u32"),
                    _ => op_atomic::<u64, M>(h, mem, a, st, r, "u64"),
                }
            }
            62..=85 => {
                let len = pick_len(h, a, r);
                if r.chance(1, 6) {
                    op_stream_huge(h, mem, a, r.below(2), r);
                } else {
                    op_stream(h, mem, a, len, r.below(4), r);
                }
            }
            86..=89 => {
                let len = pick_len(h, a, r);
                op_try_access(h, mem, a, len, r);
            }
            _ => op_region(h, mem, r),
        }
        out::eval(1);
        if h.bad {
            break;
        }
    }
}

/// Sparse stream for transfers of gigabytes: it only looks at / provides the bytes at a few marker
/// positions of the stream and claims the rest, so that nothing else is touched.
struct Sparse {
    pos: usize,
    cap: usize,
    markers: Vec<usize>,
    seen: Vec<(usize, u8)>,
    calls: usize,
}
impl vm_memory::WriteVolatile for Sparse {
    fn write_volatile<B: vm_memory::bitmap::BitmapSlice>(&mut self, buf: &vm_memory::VolatileSlice<B>) -> Result<usize, vm_memory::VolatileMemoryError> {
        let n = buf.len().min(self.cap);
        for m in &self.markers {
            if *m >= self.pos && *m < self.pos + n {
                let mut b = [0u8; 1];
                buf.read_slice(&mut b, *m - self.pos)?;
                self.seen.push((*m, b[0]));
            }
        }
        self.pos += n;
        self.calls += 1;
        Ok(n)
    }
}
impl vm_memory::ReadVolatile for Sparse {
    fn read_volatile<B: vm_memory::bitmap::BitmapSlice>(&mut self, buf: &mut vm_memory::VolatileSlice<B>) -> Result<usize, vm_memory::VolatileMemoryError> {
        let n = buf.len().min(self.cap);
        for m in &self.markers {
            if *m >= self.pos && *m < self.pos + n {
                buf.write_slice(&[0x40 | (*m % 61) as u8], *m - self.pos)?;
                self.seen.push((*m, 0x40 | (*m % 61) as u8));
            }
        }
        self.pos += n;
        self.calls += 1;
        Ok(n)
    }
}

/// One region of 2 GiB + 8 KiB (never touched except at the markers) followed by an adjacent small
/// one: stream transfers whose part inside a single region exceeds 2^31 bytes.
#[cfg(not(feature = "xen"))]
fn huge_region_streams() {
    use vm_memory::{GuestMemoryMmap, GuestRegionMmap};
    let big = (2usize << 30) + 8192;
    let base = 0x2_0000_0000u64;
    let ra = match GuestRegionMmap::<()>::from_range(GuestAddress(base), big, None) {
        Ok(r) => r,
        Err(e) => {
            out::note("C03/huge-region-not-available", J::dbg(&e));
            return;
        }
    };
    let rb = GuestRegionMmap::<()>::from_range(GuestAddress(base + big as u64), 64, None).unwrap();
    let gm = GuestMemoryMmap::from_regions(vec![ra, rb]).unwrap();
    let start = 16usize;
    let total = big - start + 40; // into the second region
    // stream positions of interest (relative to the transfer start)
    let marks: Vec<usize> = vec![0, 1, 0x7fff_efff - start, 0x7fff_f000 - start, 0x7fff_f001 - start, 0x7fff_ffff, 0x8000_0000, 0x8000_0001, big - start - 1, big - start, big - start + 1, total - 1];
    for m in &marks {
        let _ = gm.write_obj::<u8>(0x80 | (*m % 59) as u8, GuestAddress(base + (start + *m) as u64));
    }
    for (name, cap, exact) in [("write_volatile_to", usize::MAX, false), ("write_all_volatile_to", usize::MAX, true), ("write_volatile_to(sink-takes-1.5GiB-per-call)", 0x6000_0000, false), ("write_all_volatile_to(sink-takes-1GiB-per-call)", 0x4000_0000, true)] {
        let mut sink = Sparse { pos: 0, cap, markers: marks.clone(), seen: vec![], calls: 0 };
        let res = if exact { gm.write_all_volatile_to(GuestAddress(base + start as u64), &mut sink, total).map(|()| total) } else { gm.write_volatile_to(GuestAddress(base + start as u64), &mut sink, total) };
        let want_seen: Vec<(usize, u8)> = marks.iter().map(|m| (*m, 0x80 | (*m % 59) as u8)).collect();
        let mut seen = sink.seen.clone();
        seen.sort();
        let mut ws = want_seen.clone();
        ws.sort();
        if res.as_ref().ok() != Some(&total) || sink.pos != total || seen != ws {
            out::viol(&format!("C03/huge/{}/stream-did-not-receive-the-guest-bytes-in-order", name.split('(').next().unwrap()), jobj! {"variant" => name, "result" => J::s(match &res { Ok(k) => format!("Ok({:#x})", k), Err(e) => gerr(e) }), "want" => format!("{:#x}", total), "sink_received" => format!("{:#x}", sink.pos), "markers_seen" => J::dbg(&seen), "markers_wanted" => J::dbg(&ws), "calls" => sink.calls});
        }
        out::key(&format!("huge|{}", name), true);
        out::eval(1);
    }
    for (name, cap, exact) in [("read_volatile_from", usize::MAX, false), ("read_exact_volatile_from(source-gives-1GiB-per-call)", 0x4000_0000, true)] {
        let mut src = Sparse { pos: 0, cap, markers: marks.clone(), seen: vec![], calls: 0 };
        let res = if exact { gm.read_exact_volatile_from(GuestAddress(base + start as u64), &mut src, total).map(|()| total) } else { gm.read_volatile_from(GuestAddress(base + start as u64), &mut src, total) };
        let moved = match &res {
            Ok(k) => *k,
            Err(_) => 0,
        };
        let mut bad = res.is_err() || src.pos != moved || (exact && moved != total) || moved == 0;
        for m in marks.iter().filter(|m| **m < moved) {
            if gm.read_obj::<u8>(GuestAddress(base + (start + *m) as u64)).ok() != Some(0x40 | (*m % 61) as u8) {
                bad = true;
            }
        }
        if bad {
            out::viol(&format!("C03/huge/{}/stream-bytes-not-stored-in-order", name.split('(').next().unwrap()), jobj! {"variant" => name, "result" => J::s(match &res { Ok(k) => format!("Ok({:#x})", k), Err(e) => gerr(e) }), "source_consumed" => format!("{:#x}", src.pos), "calls" => src.calls});
        }
        // restore the markers for the next variant
        for m in &marks {
            let _ = gm.write_obj::<u8>(0x80 | (*m % 59) as u8, GuestAddress(base + (start + *m) as u64));
        }
        out::key(&format!("huge|{}", name), true);
        out::eval(1);
    }
    out::count("huge_region_stream_variants", 6);
}

/// Data-dependent paths on a large FILE-backed region with existing non-zero contents: page-aligned
/// multi-MiB writes of zeros / of one repeated byte / of ordinary data must read back, through
/// every read route and through the file, exactly like any other write.
#[cfg(not(feature = "xen"))]
fn big_file_region_data_patterns() {
    use std::os::unix::fs::FileExt;
    use vm_memory::{FileOffset, GuestMemoryMmap, GuestRegionMmap};
    let len = 6usize << 20;
    let f = crate::models::world::temp_file(len as u64 + 8192);
    let f2 = f.try_clone().unwrap();
    let base = 0x3_0000_0000u64;
    let reg = GuestRegionMmap::<()>::from_range(GuestAddress(base), len, Some(FileOffset::new(f, 4096))).expect("file region");
    let gm = GuestMemoryMmap::from_regions(vec![reg]).unwrap();
    let region = gm.iter().next().unwrap();
    let pat = |i: usize| -> u8 { ((i ^ (i >> 9) ^ (i >> 17)) as u8) | 1 };
    let mut model: Vec<u8> = (0..len).map(pat).collect();
    // SAFETY: the region's own mapping.
    unsafe { std::slice::from_raw_parts_mut(region.as_ptr(), len) }.copy_from_slice(&model);
    let mut step = 0u64;
    // data that equals what is already there in every whole page but differs in the unaligned edge
    // bytes (a page-compare / skip-identical optimisation must still store the edges)
    for (off, n) in [(5usize, (2usize << 20) + 10), (4090, (2 << 20) + 4096), (4096, (2 << 20) + 7), (3, (4 << 20) - 1)] {
        for route in 0..2u8 {
            let mut data: Vec<u8> = model[off..off + n].to_vec();
            let head = (4096 - off % 4096) % 4096;
            let tail = (off + n) % 4096;
            let mut edges: Vec<usize> = vec![];
            if head > 0 {
                edges.extend([0, head - 1]);
            }
            if tail > 0 {
                edges.extend([n - tail, n - 1]);
            }
            for e in &edges {
                data[*e] ^= 0xa5;
            }
            let ok = match route {
                0 => gm.write(&data, GuestAddress(base + off as u64)).ok() == Some(n),
                _ => gm.write_slice(&data, GuestAddress(base + off as u64)).is_ok(),
            };
            model[off..off + n].copy_from_slice(&data);
            // SAFETY: the region's own mapping.
            let raw = unsafe { std::slice::from_raw_parts(region.as_ptr().add(off), n) };
            let mut back = vec![0u8; n];
            let got = gm.read(&mut back, GuestAddress(base + off as u64)).ok();
            if !ok || got != Some(n) || back != model[off..off + n] || raw != &model[off..off + n] {
                let bad = (0..n).find(|i| raw[*i] != model[off + *i]);
                out::viol("C03/big-file-region/identical-pages-different-edges/what-was-written-is-not-what-is-read-back", jobj! {"route" => route, "off" => off, "len" => n, "first_wrong_byte" => J::dbg(&bad), "edge_bytes_changed" => J::dbg(&edges)});
                return;
            }
            out::key(&format!("big-file-region|identical-pages-different-edges|route{}|off{}", route, off % 4096), true);
            out::eval(1);
            step += 1;
        }
    }
    for (fill, what) in [(Some(0u8), "zeros"), (Some(0xffu8), "ones"), (Some(0x41u8), "repeated-byte"), (None, "ordinary-data")] {
        for (off, n) in [(0usize, 2usize << 20), (2 << 20, 2 << 20), (4096, 4 << 20), (1 << 20, (2 << 20) + 4096), (4097, 2 << 20), (0, len)] {
            for route in 0..3u8 {
                let data: Vec<u8> = match fill {
                    Some(b) => vec![b; n],
                    None => (0..n).map(|i| pat(i.wrapping_mul(7) + step as usize) ^ 0x55).collect(),
                };
                let ok = match route {
                    0 => gm.write(&data, GuestAddress(base + off as u64)).ok() == Some(n),
                    1 => gm.write_slice(&data, GuestAddress(base + off as u64)).is_ok(),
                    _ => region.write(&data, MemoryRegionAddress(off as u64)).ok() == Some(n),
                };
                model[off..off + n].copy_from_slice(&data);
                // read back: interface, raw mapping, file
                let mut back = vec![0u8; n + 64];
                let lo = off.saturating_sub(32);
                let hi = (off + n + 32).min(len);
                let got = gm.read(&mut back[..hi - lo], GuestAddress(base + lo as u64)).ok();
                // SAFETY: the region's own mapping.
                let raw = unsafe { std::slice::from_raw_parts(region.as_ptr().add(lo), hi - lo) };
                let mut fb = vec![0u8; 8192];
                let probe = off + n - 4096;
                let _ = f2.read_at(&mut fb[..4096], 4096 + probe as u64);
                if !ok || got != Some(hi - lo) || back[..hi - lo] != model[lo..hi] || raw != &model[lo..hi] || fb[..4096] != model[probe..probe + 4096] {
                    out::viol(&format!("C03/big-file-region/{}/what-was-written-is-not-what-is-read-back", what), jobj! {"route" => route, "off" => off, "len" => n, "write_ok" => ok, "interface_differs" => back[..hi - lo] != model[lo..hi], "mapping_differs" => raw != &model[lo..hi], "file_differs" => fb[..4096] != model[probe..probe + 4096]});
                    return;
                }
                // put the non-zero pattern back so that the next write has something to destroy
                let orig: Vec<u8> = (off..off + n).map(pat).collect();
                let _ = region.write(&orig, MemoryRegionAddress(off as u64));
                model[off..off + n].copy_from_slice(&orig);
                out::key(&format!("big-file-region|{}|route{}|off{}|len{}", what, route, if off % 4096 == 0 { "aligned" } else { "unaligned" }, n >> 20), true);
                out::eval(1);
                step += 1;
            }
        }
    }
    out::count("big_file_region_writes", step as i128);
}

#[cfg(not(miri))]
fn forked_child_reads_back<M: GuestMemory>(mem: &M, flat: &Flat, backend: &str) {
    use crate::common::fork::{self, Exit};
    let ex = fork::run(20, || {
        let mut report = String::new();
        for (i, (s, l)) in flat.lay.regions.iter().enumerate() {
            let (s, l) = (*s as u64, *l as usize);
            let want = &flat.bytes[i];
            let mut got = vec![0u8; l];
            // (regions may touch: a plain read may run on into the next one - only `l` bytes are asked for)
            let route_read = mem.read(&mut got, GuestAddress(s)).map(|n| n == l && got == *want).unwrap_or(false);
            let mut sink: Vec<u8> = vec![];
            let route_stream = mem.write_all_volatile_to(GuestAddress(s), &mut sink, l).is_ok() && sink == *want;
            let route_obj = mem.read_obj::<u8>(GuestAddress(s + l as u64 - 1)).map(|b| b == want[l - 1]).unwrap_or(false);
            let route_slice = mem.get_slice(GuestAddress(s), l.min(64)).map(|vs| {
                let mut b = vec![0u8; vs.len()];
                vs.copy_to(&mut b[..]);
                b == want[..l.min(64)]
            }).unwrap_or(false);
            if !(route_read && route_stream && route_obj && route_slice) {
                report = format!("region {} (start {:#x}, {} bytes): read={} write_all_volatile_to={} read_obj(last byte)={} get_slice.copy_to={}", i, s, l, route_read, route_stream, route_obj, route_slice);
                break;
            }
        }
        report.into_bytes()
    });
    match ex {
        Exit::Ok(rep) if rep.is_empty() => {
            out::key(&format!("fork|child-reads-back|{}|{}regions", backend, flat.lay.regions.len().min(3)), true);
            out::count("forked_children_that_read_back", 1);
        }
        Exit::Ok(rep) => v(backend, "fork/child-does-not-read-back-what-was-written-before-the-fork", flat, J::s(String::from_utf8_lossy(&rep).to_string())),
        Exit::Signal(sig) => v(backend, "fork/child-crashed-reading-inherited-guest-memory", flat, jobj! {"signal" => fork::signal_name(sig)}),
        Exit::Panic(p) => v(backend, "fork/child-panicked-reading-inherited-guest-memory", flat, J::s(p)),
        other => out::note("C03/fork-child-inconclusive", J::dbg(&other)),
    }
}

/// ONE memory object shared by reference between threads, each working in its own region (guest
/// memory is meant to be used by several vCPU / device threads at once): every access is
/// compared with the thread's own model of its region. A lookup structure that is updated on use
/// must not make an access to a mapped address fail, panic or land in another region.
#[cfg(not(miri))]
fn concurrent_accesses_on_one_memory_object(seed: u64) {
    let specs: Vec<(GuestAddress, usize)> = vec![(GuestAddress(0x0), 0x1000), (GuestAddress(0x1000), 0x800), (GuestAddress(0x4000), 0x1000), (GuestAddress(0x10_0000), 0x2000), (GuestAddress(0x10_2000), 0x100), (GuestAddress(0xffff_0000), 0x1000)];
    let gm = vm_memory::GuestMemoryMmap::<()>::from_ranges(&specs).unwrap();
    let per = 500_000u64;
    let fails = std::sync::Mutex::new(Vec::<String>::new());
    let panics = std::thread::scope(|sc| {
        let hs: Vec<_> = specs
            .iter()
            .enumerate()
            .map(|(t, (base, len))| {
                let gm = &gm;
                let fails = &fails;
                let (base, len) = (base.0, *len);
                sc.spawn(move || {
                    let mut r = Rng::new(seed, "c03-conc", t as u64);
                    let mut model = vec![0u8; len];
                    let _ = gm.write_slice(&model, GuestAddress(base));
                    for i in 0..per {
                        let n = 1 + r.usize_below(24);
                        let off = r.usize_below(len - n + 1);
                        let a = GuestAddress(base + off as u64);
                        let bad = match r.below(5) {
                            0 => {
                                let d = r.random_bytes(n);
                                model[off..off + n].copy_from_slice(&d);
                                gm.write(&d, a).ok() != Some(n)
                            }
                            1 => {
                                let mut b = vec![0u8; n];
                                gm.read(&mut b, a).ok() != Some(n) || b != model[off..off + n]
                            }
                            2 if n >= 8 => {
                                let v = r.next();
                                model[off..off + 8].copy_from_slice(&v.to_ne_bytes());
                                gm.write_obj::<u64>(v, a).is_err()
                            }
                            3 if n >= 4 => gm.read_obj::<u32>(a).ok() != Some(u32::from_ne_bytes(model[off..off + 4].try_into().unwrap())),
                            _ => !(gm.address_in_range(a) && gm.check_range(a, n) && gm.find_region(a).map(|rg| rg.start_addr().0) == Some(base)),
                        };
                        if bad {
                            fails.lock().unwrap().push(format!("thread {} (region at {:#x}), operation {}: access at {:#x}+{} failed or returned other bytes than this thread wrote", t, base, i, a.0, n));
                            return;
                        }
                    }
                })
            })
            .collect();
        hs.into_iter().map(|h| h.join().is_err()).filter(|e| *e).count()
    });
    let f = fails.lock().unwrap();
    if panics > 0 {
        out::viol("C03/concurrent/panic-in-a-thread-accessing-its-own-region", jobj! {"threads_that_panicked" => panics});
    }
    if let Some(first) = f.first() {
        out::viol("C03/concurrent/access-to-a-mapped-address-failed-or-returned-foreign-bytes", J::s(first.clone()));
    }
    out::key("concurrent|one-memory-object|six-threads-six-regions", true);
    out::count("concurrent_accesses", (per * specs.len() as u64) as i128);
    out::eval(per * specs.len() as u64);
}

pub fn run(args: &Args) {
    out::set_quiet_cases(true);
    #[cfg(not(feature = "xen"))]
    if args.shard().0 == 1 % args.shard().1 && !cfg!(miri) && !args.flag("nohuge") {
        if let Err(p) = guarded(big_file_region_data_patterns) {
            out::viol(&format!("C03/panic/big-file-region/{}", panic_sig(&p)), J::s(p));
        }
    }
    #[cfg(not(feature = "xen"))]
    if args.shard().0 == 0 && !cfg!(miri) && !args.flag("nohuge") {
        if let Err(p) = guarded(huge_region_streams) {
            out::viol(&format!("C03/panic/huge/{}", panic_sig(&p)), J::s(p));
        }
    }
    #[cfg(not(miri))]
    if args.shard().0 == 2 % args.shard().1 && !args.flag("noconc") {
        if let Err(p) = guarded(|| concurrent_accesses_on_one_memory_object(args.seed())) {
            out::viol(&format!("C03/panic/concurrent/{}", panic_sig(&p)), J::s(p));
        }
    }
    let minops = args.u64("minops", 20);
    let maxops = args.u64("maxops", 200);
    for case in args.cases(3000) {
        let mut r = Rng::new(args.seed(), "c03", case);
        let kind = if cfg!(miri) { r.below(2) * 2 } else { r.below(3) };
        let nops = r.range(minops, maxops);
        let res = guarded(|| match kind {
            0 | 1 => {
                let lay = small_layout(&mut r, false, true);
                let backing: Vec<Backing> = lay.regions.iter().map(|_| if kind == 1 && r.chance(2, 3) { Backing::File } else { Backing::Anon }).collect();
                let (gm, raws, flat) = build_mmap::<()>(&lay, &backing, &mut r);
                let be = if kind == 1 { "mmap-file" } else { "mmap-anon" };
                out::case(case, jobj! {"op" => "history", "backend" => be, "shape" => lay.shape(), "ops" => nops});
                let mut h = H { backend: be, flat, raws: &raws, trace: vec![], bad: false };
                h.frame("initial");
                history(&gm, &mut h, &mut r, nops);
                // the memory object is an ordinary value: a child created by fork() holds it too and
                // must read back, through every route, what was written before the fork
                #[cfg(not(miri))]
                if !h.bad && case % 16 == 3 {
                    forked_child_reads_back(&gm, &h.flat, be);
                }
                if out::want_sample() {
                    out::sample(jobj! {"backend" => be, "layout" => J::A(lay.regions.iter().map(|(s, l)| J::S(format!("{:#x}+{:#x}", s, l))).collect()), "first_ops" => h.trace.iter().take(8).cloned().collect::<Vec<String>>()});
                }
            }
            _ => {
                let mut lay = small_layout(&mut r, true, true);
                // small regions only (mock storage)
                lay.regions.retain(|(_, l)| *l <= 1 << 16);
                if lay.regions.is_empty() {
                    return;
                }
                let (mm, raws, flat) = build_mock(&lay, None, &mut r);
                out::case(case, jobj! {"op" => "history", "backend" => "mock", "shape" => lay.shape(), "ops" => nops});
                let mut h = H { backend: "mock", flat, raws: &raws, trace: vec![], bad: false };
                history(&mm, &mut h, &mut r, nops);
                if lay.last_addr() == Some(TOP - 1) {
                    out::count("histories_with_region_at_top", 1);
                }
            }
        });
        if let Err(p) = res {
            out::viol(&format!("C03/panic/{}", panic_sig(&p)), jobj! {"panic" => p, "case" => case});
        }
    }
}
