//! Executable reference models written from the property statements.
pub mod layout;
pub mod mock;
pub mod world;
