//! Executable reference models written from the property statements.
