//! Executable reference models written from the property statements.
pub mod layout;
pub mod mock;
pub mod world;
#[cfg(feature = "xen")]
pub mod xenemu;
