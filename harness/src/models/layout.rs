//! Interval-set model of a guest address space: sorted, disjoint (start, len) in u128.

#[derive(Clone, Debug, Default)]
pub struct Layout {
    /// (start, len) with len >= 1, sorted by start, pairwise disjoint, start + len <= 2^64
    pub regions: Vec<(u128, u128)>,
}

pub const TOP: u128 = 1u128 << 64;

impl Layout {
    pub fn new(mut regions: Vec<(u128, u128)>) -> Layout {
        regions.sort();
        Layout { regions }
    }
    pub fn region_of(&self, a: u128) -> Option<usize> {
        if self.regions.len() <= 64 {
            return self.regions.iter().position(|(s, l)| a >= *s && a < *s + *l);
        }
        // sorted and disjoint by construction: predecessor search
        let i = self.regions.partition_point(|(s, _)| *s <= a);
        if i == 0 {
            return None;
        }
        let (s, l) = self.regions[i - 1];
        if a < s + l {
            Some(i - 1)
        } else {
            None
        }
    }
    pub fn mapped(&self, a: u128) -> bool {
        a < TOP && self.region_of(a).is_some()
    }
    /// Length of the maximal run of consecutively mapped addresses starting at `a`
    /// (ends at the first hole or at 2^64).
    pub fn run(&self, a: u128) -> u128 {
        let mut cur = a;
        loop {
            match self.region_of(cur) {
                Some(i) if cur < TOP => {
                    let (s, l) = self.regions[i];
                    cur = s + l;
                }
                _ => break,
            }
        }
        cur - a
    }
    pub fn last_addr(&self) -> Option<u128> {
        self.regions.iter().map(|(s, l)| s + l - 1).max()
    }
    /// Does [a, a+n) (n >= 1) lie inside a single region? returns (idx, offset)
    pub fn within_one(&self, a: u128, n: u128) -> Option<(usize, u128)> {
        let i = self.region_of(a)?;
        let (s, l) = self.regions[i];
        if a + n <= s + l {
            Some((i, a - s))
        } else {
            None
        }
    }
    /// position class of an address relative to the nearest region edge
    pub fn pos_class(&self, a: u128) -> &'static str {
        for (s, l) in &self.regions {
            let e = *s + *l - 1;
            if a == *s && a == e {
                return "only-byte";
            }
            if a == *s {
                return "start";
            }
            if a == e {
                return "end";
            }
            if a + 1 == *s {
                return "start-1";
            }
            if a == e + 1 {
                return "end+1";
            }
        }
        if self.mapped(a) {
            "inside"
        } else if self.regions.first().map_or(false, |(s, _)| a < *s) {
            "below"
        } else if self.last_addr().map_or(true, |e| a > e) {
            "above"
        } else {
            "hole"
        }
    }
    pub fn shape(&self) -> String {
        let n = self.regions.len();
        let mut s = match n {
            0..=8 => format!("{}r", n),
            9..=16 => "9..16r".to_string(),
            17..=32 => "17..32r".to_string(),
            33..=64 => "33..64r".to_string(),
            _ => "65+r".to_string(),
        };
        let mut adj = false;
        let mut hole1 = false;
        for w in self.regions.windows(2) {
            let gap = w[1].0 - (w[0].0 + w[0].1);
            if gap == 0 {
                adj = true;
            }
            if gap == 1 {
                hole1 = true;
            }
        }
        if adj {
            s.push_str("+adj");
        }
        if hole1 {
            s.push_str("+hole1");
        }
        if self.regions.first().map_or(false, |(st, _)| *st == 0) {
            s.push_str("+at0");
        }
        if self.last_addr() == Some(TOP - 1) {
            s.push_str("+top");
        } else if self.last_addr().map_or(false, |e| e >= TOP - 64) {
            s.push_str("+neartop");
        }
        if self.regions.iter().any(|(_, l)| *l == 1) {
            s.push_str("+1byte");
        }
        s
    }
}
