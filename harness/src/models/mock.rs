//! A second, non-mmap implementation of GuestMemory / GuestMemoryRegion that provides only the
//! *required* methods, so that every provided default method of the traits (try_access,
//! check_range, checked_offset, last_addr, to_region_addr, get_slice, get_host_address and the
//! whole Bytes<GuestAddress> blanket impl) runs on layouts GuestRegionMmap cannot express, e.g.
//! a region whose last byte is u64::MAX.

use std::sync::atomic::Ordering;
use vm_memory::bitmap::{AtomicBitmap, Bitmap, BS};
use vm_memory::guest_memory::{Error, Result};
use vm_memory::{
    AtomicAccess, Bytes, GuestAddress, GuestMemory, GuestMemoryRegion, GuestUsize,
    MemoryRegionAddress, ReadVolatile, VolatileSlice, WriteVolatile,
};

pub struct MockRegion {
    pub start: GuestAddress,
    pub len: u64,
    pub ptr: *mut u8,
    cap: usize,
    pub bitmap: Option<AtomicBitmap>,
}

// SAFETY: the backing bytes are only touched through volatile accessors / raw pointers.
unsafe impl Send for MockRegion {}
unsafe impl Sync for MockRegion {}

impl MockRegion {
    pub fn new(start: u64, len: u64, bitmap: Option<AtomicBitmap>) -> MockRegion {
        assert!(len >= 1 && len <= (1 << 24));
        let cap = len as usize;
        let layout = std::alloc::Layout::from_size_align(cap, 16).unwrap();
        // SAFETY: non-zero size.
        let ptr = unsafe { std::alloc::alloc_zeroed(layout) };
        assert!(!ptr.is_null());
        MockRegion { start: GuestAddress(start), len, ptr, cap, bitmap }
    }
    fn whole(&self) -> VolatileSlice<BS<Option<AtomicBitmap>>> {
        // SAFETY: ptr is valid for cap == len bytes for the lifetime of self.
        unsafe { VolatileSlice::with_bitmap(self.ptr, self.cap, self.bitmap.slice_at(0), None) }
    }
    pub fn read_raw(&self) -> Vec<u8> {
        (0..self.cap).map(|i| unsafe { self.ptr.add(i).read_volatile() }).collect()
    }
    pub fn write_raw(&self, off: usize, data: &[u8]) {
        for (i, b) in data.iter().enumerate() {
            unsafe { self.ptr.add(off + i).write_volatile(*b) };
        }
    }
}

impl Drop for MockRegion {
    fn drop(&mut self) {
        // SAFETY: same layout as in new().
        unsafe { std::alloc::dealloc(self.ptr, std::alloc::Layout::from_size_align(self.cap, 16).unwrap()) };
    }
}

impl Bytes<MemoryRegionAddress> for MockRegion {
    type E = Error;
    fn write(&self, buf: &[u8], addr: MemoryRegionAddress) -> Result<usize> {
        self.whole().write(buf, addr.0 as usize).map_err(Into::into)
    }
    fn read(&self, buf: &mut [u8], addr: MemoryRegionAddress) -> Result<usize> {
        self.whole().read(buf, addr.0 as usize).map_err(Into::into)
    }
    fn write_slice(&self, buf: &[u8], addr: MemoryRegionAddress) -> Result<()> {
        self.whole().write_slice(buf, addr.0 as usize).map_err(Into::into)
    }
    fn read_slice(&self, buf: &mut [u8], addr: MemoryRegionAddress) -> Result<()> {
        self.whole().read_slice(buf, addr.0 as usize).map_err(Into::into)
    }
    fn read_volatile_from<F: ReadVolatile>(&self, addr: MemoryRegionAddress, src: &mut F, count: usize) -> Result<usize> {
        self.whole().read_volatile_from(addr.0 as usize, src, count).map_err(Into::into)
    }
    fn read_exact_volatile_from<F: ReadVolatile>(&self, addr: MemoryRegionAddress, src: &mut F, count: usize) -> Result<()> {
        self.whole().read_exact_volatile_from(addr.0 as usize, src, count).map_err(Into::into)
    }
    fn write_volatile_to<F: WriteVolatile>(&self, addr: MemoryRegionAddress, dst: &mut F, count: usize) -> Result<usize> {
        self.whole().write_volatile_to(addr.0 as usize, dst, count).map_err(Into::into)
    }
    fn write_all_volatile_to<F: WriteVolatile>(&self, addr: MemoryRegionAddress, dst: &mut F, count: usize) -> Result<()> {
        self.whole().write_all_volatile_to(addr.0 as usize, dst, count).map_err(Into::into)
    }
    fn store<T: AtomicAccess>(&self, val: T, addr: MemoryRegionAddress, order: Ordering) -> Result<()> {
        self.whole().store(val, addr.0 as usize, order).map_err(Into::into)
    }
    fn load<T: AtomicAccess>(&self, addr: MemoryRegionAddress, order: Ordering) -> Result<T> {
        self.whole().load(addr.0 as usize, order).map_err(Into::into)
    }
}

impl GuestMemoryRegion for MockRegion {
    type B = Option<AtomicBitmap>;
    fn len(&self) -> GuestUsize {
        self.len
    }
    fn start_addr(&self) -> GuestAddress {
        self.start
    }
    fn bitmap(&self) -> &Self::B {
        &self.bitmap
    }
    fn get_host_address(&self, addr: MemoryRegionAddress) -> Result<*mut u8> {
        if addr.0 < self.len {
            Ok(self.ptr.wrapping_add(addr.0 as usize))
        } else {
            Err(Error::InvalidBackendAddress)
        }
    }
    fn get_slice(&self, offset: MemoryRegionAddress, count: usize) -> Result<VolatileSlice<BS<Self::B>>> {
        let end = offset.0 as u128 + count as u128;
        if end > self.len as u128 {
            return Err(Error::InvalidBackendAddress);
        }
        // SAFETY: range checked above.
        Ok(unsafe {
            VolatileSlice::with_bitmap(self.ptr.add(offset.0 as usize), count, self.bitmap.slice_at(offset.0 as usize), None)
        })
    }
}

pub struct MockMemory {
    pub regions: Vec<MockRegion>,
}

impl MockMemory {
    pub fn new(regions: Vec<MockRegion>) -> MockMemory {
        MockMemory { regions }
    }
}

impl GuestMemory for MockMemory {
    type R = MockRegion;
    fn num_regions(&self) -> usize {
        self.regions.len()
    }
    fn find_region(&self, addr: GuestAddress) -> Option<&MockRegion> {
        self.regions.iter().find(|r| {
            let s = r.start.0 as u128;
            (addr.0 as u128) >= s && (addr.0 as u128) < s + r.len as u128
        })
    }
    fn iter(&self) -> impl Iterator<Item = &Self::R> {
        self.regions.iter()
    }
}
