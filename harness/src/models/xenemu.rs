//! Stand-in for /dev/xen/gntdev and /dev/xen/privcmd, driven through the interposed ioctl(2).
//!
//! A sparse temp file stands for guest-physical memory: file offset = guest address with bit 63
//! cleared. IOCTL_GNTDEV_MAP_GRANT_REF is answered with index = refs[0].reference * page_size,
//! so the library's subsequent mmap(fd, index) maps exactly the guest pages it asked for: data
//! written through a temporary window appears in the file at the guest address, and a window
//! that is too small either faults or is caught analytically from the log.

#![cfg(feature = "xen")]

use crate::common::interpose;
use std::fs::File;
use std::os::fd::AsRawFd;
use std::sync::Mutex;

pub const PAGE: u64 = 4096;
pub const IOCTL_PRIVCMD_MMAPBATCH_V2: u64 = (32 << 16) | (('P' as u64) << 8) | 4;
pub const IOCTL_GNTDEV_MAP_GRANT_REF: u64 = (24 << 16) | (('G' as u64) << 8);
pub const IOCTL_GNTDEV_UNMAP_GRANT_REF: u64 = (16 << 16) | (('G' as u64) << 8) | 1;

#[derive(Clone, Debug, PartialEq, Eq)]
pub enum XEv {
    /// grant map: file offset handed out, page count, refs consecutive + same domid?
    Map { index: u64, count: u32, domid: u32, consecutive: bool },
    Unmap { index: u64, count: u32, was_live: bool },
    Foreign { num: u32, domid: u16, addr: usize, first_pfn: u64 },
    /// a request arrived on the registered descriptor number after that descriptor was closed
    ClosedDescriptor { req: u64 },
}

#[derive(Default)]
struct State {
    fd: i32,
    log: Vec<XEv>,
    live: Vec<(u64, u32)>,
    fail_next_map: u32,
    fail_next_foreign: u32,
}

static STATE: Mutex<Option<State>> = Mutex::new(None);

#[repr(C)]
struct GrantRef {
    domid: u32,
    reference: u32,
}
#[repr(C)]
struct MapGrantRef {
    count: u32,
    pad: u32,
    index: u64,
}
#[repr(C)]
struct UnmapGrantRef {
    index: u64,
    count: u32,
    pad: u32,
}
#[repr(C)]
struct MmapBatchV2 {
    num: u32,
    domid: u16,
    addr: *mut libc::c_void,
    arr: *const u64,
    err: *mut libc::c_int,
}

fn handler(fd: i32, req: u64, arg: *mut libc::c_void) -> Option<i32> {
    let mut g = STATE.try_lock().ok()?;
    let st = g.as_mut()?;
    if fd != st.fd {
        return None;
    }
    // the descriptor NUMBER is the registered one - but is it still open? A request on a closed
    // descriptor fails with EBADF in the kernel before any driver sees it; the emulator does the same
    // (a library that lets the device file go while a mapping made through it is still live would
    // otherwise be served by the emulator as if nothing had happened).
    // SAFETY: querying the descriptor flags has no side effect.
    if unsafe { libc::fcntl(fd, libc::F_GETFD) } == -1 {
        st.log.push(XEv::ClosedDescriptor { req });
        // SAFETY: errno of the calling thread.
        unsafe { *libc::__errno_location() = libc::EBADF };
        return Some(-1);
    }
    match req {
        IOCTL_GNTDEV_MAP_GRANT_REF => {
            // SAFETY: the library passes a FamStruct of `count` grant refs behind the header.
            unsafe {
                let hdr = arg as *mut MapGrantRef;
                let count = (*hdr).count;
                if st.fail_next_map > 0 {
                    st.fail_next_map -= 1;
                    *libc::__errno_location() = libc::ENOMEM;
                    return Some(-1);
                }
                let refs = (arg as *const u8).add(std::mem::size_of::<MapGrantRef>()) as *const GrantRef;
                let mut consecutive = true;
                let (mut first, mut domid) = (0u32, 0u32);
                for i in 0..count as usize {
                    let r = &*refs.add(i);
                    if i == 0 {
                        first = r.reference;
                        domid = r.domid;
                    } else if r.reference != first.wrapping_add(i as u32) || r.domid != domid {
                        consecutive = false;
                    }
                }
                let index = first as u64 * PAGE;
                (*hdr).index = index;
                st.log.push(XEv::Map { index, count, domid, consecutive });
                st.live.push((index, count));
            }
            Some(0)
        }
        IOCTL_GNTDEV_UNMAP_GRANT_REF => {
            // SAFETY: the library passes a GntDevUnmapGrantRef.
            let (index, count) = unsafe {
                let u = arg as *const UnmapGrantRef;
                ((*u).index, (*u).count)
            };
            let pos = st.live.iter().position(|x| *x == (index, count));
            st.log.push(XEv::Unmap { index, count, was_live: pos.is_some() });
            if let Some(p) = pos {
                st.live.remove(p);
            }
            Some(0)
        }
        IOCTL_PRIVCMD_MMAPBATCH_V2 => {
            if st.fail_next_foreign > 0 {
                st.fail_next_foreign -= 1;
                // SAFETY: errno of the calling thread.
                unsafe { *libc::__errno_location() = libc::EFAULT };
                return Some(-1);
            }
            // SAFETY: the library passes a PrivCmdMmapBatchV2.
            unsafe {
                let b = arg as *const MmapBatchV2;
                let num = (*b).num;
                let first = if num > 0 && !(*b).arr.is_null() { *(*b).arr } else { 0 };
                for i in 0..num as usize {
                    if !(*b).err.is_null() {
                        *(*b).err.add(i) = 0;
                    }
                }
                st.log.push(XEv::Foreign { num, domid: (*b).domid, addr: (*b).addr as usize, first_pfn: first });
            }
            Some(0)
        }
        _ => None,
    }
}

pub struct Emu {
    pub file: std::sync::Arc<File>,
    pub len: u64,
}

impl Emu {
    /// Create the backing file (sparse, `len` bytes) and register the ioctl handler.
    pub fn install(len: u64) -> Emu {
        let file = std::sync::Arc::new(super::world::temp_file(len));
        *STATE.lock().unwrap() = Some(State { fd: file.as_raw_fd(), ..Default::default() });
        interpose::set_ioctl_handler(Some(handler));
        Emu { file, len }
    }
    /// FileOffset sharing the emulator's descriptor (so that ioctls on it reach the handler).
    pub fn file_offset(&self, start: u64) -> vm_memory::FileOffset {
        vm_memory::FileOffset::from_arc(self.file.clone(), start)
    }
    pub fn fd(&self) -> i32 {
        self.file.as_raw_fd()
    }
    pub fn clear(&self) {
        if let Some(s) = STATE.lock().unwrap().as_mut() {
            s.log.clear();
        }
    }
    pub fn take_log(&self) -> Vec<XEv> {
        STATE.lock().unwrap().as_mut().map(|s| std::mem::take(&mut s.log)).unwrap_or_default()
    }
    pub fn live(&self) -> Vec<(u64, u32)> {
        STATE.lock().unwrap().as_ref().map(|s| s.live.clone()).unwrap_or_default()
    }
    pub fn fail_next_foreign(&self, n: u32) {
        if let Some(s) = STATE.lock().unwrap().as_mut() {
            s.fail_next_foreign = n;
        }
    }
    pub fn fail_next_map(&self, n: u32) {
        if let Some(s) = STATE.lock().unwrap().as_mut() {
            s.fail_next_map = n;
        }
    }
    /// bytes of the "guest" at guest address `ga` (bit 63 cleared)
    pub fn read_guest(&self, ga: u64, n: usize) -> Vec<u8> {
        use std::os::unix::fs::FileExt;
        let mut b = vec![0u8; n];
        self.file.read_exact_at(&mut b, ga & !(1 << 63)).expect("emu pread");
        b
    }
    pub fn write_guest(&self, ga: u64, d: &[u8]) {
        use std::os::unix::fs::FileExt;
        self.file.write_all_at(d, ga & !(1 << 63)).expect("emu pwrite");
    }
}

impl Drop for Emu {
    fn drop(&mut self) {
        interpose::set_ioctl_handler(None);
        *STATE.lock().unwrap() = None;
    }
}
