//! Guest memories with real bytes behind them + the flat sparse byte-array model.

use super::layout::Layout;
use super::mock::{MockMemory, MockRegion};
use crate::common::prng::Rng;
use std::fs::File;
use std::os::unix::fs::FileExt;
use vm_memory::bitmap::{AtomicBitmap, Bitmap, NewBitmap};
use vm_memory::{FileOffset, GuestAddress, GuestMemory, GuestMemoryMmap, GuestMemoryRegion, GuestRegionMmap};

pub const SLACK: u8 = 0xC7;

pub fn temp_file(len: u64) -> File {
    use std::sync::atomic::{AtomicU64, Ordering};
    static N: AtomicU64 = AtomicU64::new(0);
    let dir = std::env::var("VMV_TMP").unwrap_or_else(|_| "/dev/shm".to_string());
    let path = format!("{}/vmv-{}-{}", dir, std::process::id(), N.fetch_add(1, Ordering::Relaxed));
    let f = std::fs::OpenOptions::new().read(true).write(true).create_new(true).open(&path).expect("temp file");
    let _ = std::fs::remove_file(&path);
    f.set_len(len).expect("set_len");
    f
}

pub fn named_temp_file(tag: &str, len: u64) -> (File, String) {
    use std::sync::atomic::{AtomicU64, Ordering};
    static N: AtomicU64 = AtomicU64::new(0);
    let dir = std::env::var("VMV_TMP").unwrap_or_else(|_| "/dev/shm".to_string());
    let path = format!("{}/vmv-{}-{}-{}", dir, tag, std::process::id(), N.fetch_add(1, Ordering::Relaxed));
    let f = std::fs::OpenOptions::new().read(true).write(true).create_new(true).open(&path).expect("temp file");
    f.set_len(len).expect("set_len");
    (f, path)
}

/// The model: layout + bytes of each region.
#[derive(Clone, Debug)]
pub struct Flat {
    pub lay: Layout,
    pub bytes: Vec<Vec<u8>>,
}

impl Flat {
    pub fn get(&self, a: u128) -> Option<u8> {
        let i = self.lay.region_of(a)?;
        Some(self.bytes[i][(a - self.lay.regions[i].0) as usize])
    }
    pub fn set(&mut self, a: u128, b: u8) {
        let i = self.lay.region_of(a).expect("mapped");
        let o = (a - self.lay.regions[i].0) as usize;
        self.bytes[i][o] = b;
    }
    pub fn read(&self, a: u128, n: usize) -> Vec<u8> {
        (0..n).map(|k| self.get(a + k as u128).expect("mapped")).collect()
    }
    pub fn write(&mut self, a: u128, data: &[u8]) {
        for (k, b) in data.iter().enumerate() {
            self.set(a + k as u128, *b);
        }
    }
}

/// Real memory of one region as the harness sees it (independent of the library's accessors).
pub struct RawRegion {
    pub ptr: *mut u8,
    pub len: usize,
    pub slack: usize,
    pub file: Option<(File, u64)>,
}

impl RawRegion {
    pub fn read_all(&self) -> Vec<u8> {
        (0..self.len).map(|i| unsafe { self.ptr.add(i).read_volatile() }).collect()
    }
    pub fn fill(&self, d: &[u8]) {
        for (i, b) in d.iter().enumerate() {
            unsafe { self.ptr.add(i).write_volatile(*b) };
        }
    }
    pub fn paint_slack(&self) {
        for i in 0..self.slack {
            unsafe { self.ptr.add(self.len + i).write_volatile(SLACK) };
        }
    }
    pub fn slack_broken(&self) -> Option<usize> {
        (0..self.slack).find(|i| unsafe { self.ptr.add(self.len + i).read_volatile() } != SLACK)
    }
    pub fn file_bytes(&self) -> Option<Vec<u8>> {
        let (f, off) = self.file.as_ref()?;
        let mut b = vec![0u8; self.len];
        f.read_exact_at(&mut b, *off).ok()?;
        Some(b)
    }
}

/// Compare every region (and slack, and backing file) with the model; returns a description of
/// the first difference.
pub fn compare(flat: &Flat, raws: &[RawRegion]) -> Option<String> {
    for (i, raw) in raws.iter().enumerate() {
        let real = raw.read_all();
        if real != flat.bytes[i] {
            let at = real.iter().zip(flat.bytes[i].iter()).position(|(a, b)| a != b).unwrap();
            return Some(format!("region {} (start {:#x}) differs at offset {}: real {:#x} model {:#x}", i, flat.lay.regions[i].0, at, real[at], flat.bytes[i][at]));
        }
        if let Some(at) = raw.slack_broken() {
            return Some(format!("region {}: byte {} past the end of the region (mapping slack) was modified", i, at));
        }
        if let Some(fb) = raw.file_bytes() {
            if fb != flat.bytes[i] {
                let at = fb.iter().zip(flat.bytes[i].iter()).position(|(a, b)| a != b).unwrap();
                return Some(format!("region {}: backing file differs at offset {}", i, at));
            }
        }
    }
    None
}

pub fn resync(flat: &Flat, raws: &[RawRegion]) {
    for (i, raw) in raws.iter().enumerate() {
        raw.fill(&flat.bytes[i]);
        raw.paint_slack();
    }
}

#[derive(Clone, Copy, Debug, PartialEq, Eq)]
pub enum Backing {
    Anon,
    File,
}

/// Build a GuestMemoryMmap over `lay` (lengths must be small) with bitmap type B created by `mk`.
pub fn build_mmap<B: Bitmap + NewBitmap + 'static>(lay: &Layout, backing: &[Backing], r: &mut Rng) -> (GuestMemoryMmap<B>, Vec<RawRegion>, Flat) {
    let mut regs = vec![];
    let mut filemeta = vec![];
    // one time in three the collection is built in one go (from_ranges_with_files / from_ranges)
    let one_go = r.chance(1, 3);
    let mut tuples: Vec<(GuestAddress, usize, Option<FileOffset>)> = vec![];
    for (i, (s, l)) in lay.regions.iter().enumerate() {
        let len = *l as usize;
        let fo = if backing[i] == Backing::File && !cfg!(miri) {
            let off = 4096 * r.below(3);
            let f = temp_file(off + len as u64 + r.below(5000));
            let f2 = f.try_clone().expect("dup");
            filemeta.push(Some((f2, off)));
            Some(FileOffset::new(f, off))
        } else {
            filemeta.push(None);
            None
        };
        if one_go {
            tuples.push((GuestAddress(*s as u64), len, fo));
        } else {
            regs.push(GuestRegionMmap::<B>::from_range(GuestAddress(*s as u64), len, fo).expect("region"));
        }
    }
    let gm = if one_go {
        if tuples.iter().all(|t| t.2.is_none()) && r.chance(1, 2) {
            let plain: Vec<(GuestAddress, usize)> = tuples.iter().map(|t| (t.0, t.1)).collect();
            GuestMemoryMmap::from_ranges(&plain).expect("layout (from_ranges)")
        } else {
            GuestMemoryMmap::from_ranges_with_files(tuples).expect("layout (from_ranges_with_files)")
        }
    } else {
        GuestMemoryMmap::from_regions(regs).expect("layout")
    };
    let mut raws = vec![];
    let mut bytes = vec![];
    for (i, reg) in gm.iter().enumerate() {
        let len = reg.len() as usize;
        let slack = if cfg!(miri) { 0 } else { len.div_ceil(4096) * 4096 - len };
        // file-backed: bytes past EOF in the last page must not be touched (SIGBUS beyond the
        // last file page) - only paint slack when the file covers the whole page
        let slack = match &filemeta[i] {
            Some((f, off)) => {
                let flen = f.metadata().map(|m| m.len()).unwrap_or(0);
                let avail = flen.saturating_sub(*off + len as u64) as usize;
                slack.min(avail).min(0) // shared mappings: slack bytes are file bytes; leave them alone
            }
            None => slack,
        };
        let raw = RawRegion { ptr: reg.as_ptr(), len, slack, file: filemeta[i].take() };
        let init = r.bytes(len);
        raw.fill(&init);
        raw.paint_slack();
        bytes.push(init);
        raws.push(raw);
    }
    (gm, raws, Flat { lay: lay.clone(), bytes })
}

pub fn build_mock(lay: &Layout, page: Option<usize>, r: &mut Rng) -> (MockMemory, Vec<RawRegion>, Flat) {
    let mut regs = vec![];
    let mut raws = vec![];
    let mut bytes = vec![];
    for (s, l) in &lay.regions {
        let bm = page.map(|p| AtomicBitmap::new(*l as usize, std::num::NonZeroUsize::new(p).unwrap()));
        let reg = MockRegion::new(*s as u64, *l as u64, bm);
        let init = r.bytes(*l as usize);
        reg.write_raw(0, &init);
        raws.push(RawRegion { ptr: reg.ptr, len: *l as usize, slack: 0, file: None });
        bytes.push(init);
        regs.push(reg);
    }
    (MockMemory::new(regs), raws, Flat { lay: lay.clone(), bytes })
}

/// Random small layout: 1..=4 regions, touching / 1-byte holes / bigger holes, optionally at 0,
/// optionally ending at the top of the address space (`top`: last byte 2^64-1 allowed).
pub fn small_layout(r: &mut Rng, top_ok: bool, near_top_ok: bool) -> Layout {
    let n = 1 + r.usize_below(4);
    let mut regs: Vec<(u128, u128)> = vec![];
    let mut cur: u128 = match r.below(4) {
        0 => 0,
        1 => 0x1000,
        2 => r.below(1 << 16) as u128,
        _ => (1u128 << 32) - r.below(600) as u128,
    };
    for _ in 0..n {
        let l: u128 = match r.below(10) {
            0 => 1,
            1 => 2,
            2 if !cfg!(miri) => 4096,
            3 if !cfg!(miri) => 4097 + r.below(200) as u128,
            4 => 8,
            // transfer magnitude: now and then a region longer than 64 KiB
            5 if !cfg!(miri) && r.chance(1, 5) => 0x10000 + 1 + r.below(5000) as u128,
            _ => 1 + r.below(if cfg!(miri) { 60 } else { 300 }) as u128,
        };
        regs.push((cur, l));
        cur += l + *r.pick(&[0u128, 0, 0, 1, 2, 7, 4096, 100_000]);
    }
    if (top_ok || near_top_ok) && r.chance(1, 3) {
        let l = 1 + r.below(200) as u128;
        let end = if top_ok && r.chance(2, 3) { 1u128 << 64 } else { (1u128 << 64) - 1 - r.below(3) as u128 };
        regs.push((end - l, l));
    }
    Layout::new(regs)
}
