//! C01 — every accessor handed out stays inside its parent memory and is aligned.
//! Oracle: extent arithmetic in u128 on what the accessors themselves report (ptr_guard, len,
//! reference addresses) + use of every accessor under guard pages / canaries / sanitizers.

use crate::common::arena::Place;
use crate::common::gen::{edge_usize, is_overflow_class};
use crate::common::out::{self, J};
use crate::common::prng::Rng;
use crate::common::{guarded, panic_sig, Args};
use crate::mon_c04::{t_from_bytes, Cont};
use std::mem::{align_of, size_of};
use std::sync::atomic::{AtomicU16, AtomicU32, AtomicU64, AtomicU8, AtomicUsize};
use vm_memory::{
    Be64, ByteValued, Bytes, GuestAddress, GuestMemory, GuestMemoryMmap, GuestMemoryRegion,
    GuestRegionMmap, Le32, MemoryRegionAddress, VolatileArrayRef, VolatileMemory, VolatileSlice,
};

/// true in the AddressSanitizer variant (the orchestrator selects heap arenas there)
fn asan_arena() -> bool {
    use std::sync::OnceLock;
    static A: OnceLock<bool> = OnceLock::new();
    *A.get_or_init(|| std::env::var("VMV_ARENA").map_or(false, |v| v == "heap"))
}

fn v(sig: &str, d: J) {
    out::viol(&format!("C01/{}", sig), d);
}

#[derive(Clone, Copy, Debug)]
struct Ext {
    addr: usize,
    len: usize,
}

struct Chain<'a> {
    root: Ext,
    root_kind: &'static str,
    cont: &'a Cont,
    model: Vec<u8>,
    steps: Vec<String>,
    depth: usize,
    bad: bool,
}

fn fits(parent_len: usize, off: usize, n: u128) -> bool {
    off as u128 + n <= parent_len as u128
}

impl Chain<'_> {
    fn push_step(&mut self, d: String) {
        set_tail(&d);
        self.steps.push(d);
    }
    fn fail(&mut self, sig: &str, d: J) {
        self.bad = true;
        v(sig, jobj! {"root" => self.root_kind, "root_len" => self.root.len, "root_addr_mod16" => self.root.addr % 16, "depth" => self.depth, "chain" => self.steps.clone(), "detail" => d});
    }

    /// child extent (addr,len) reported by the library vs expectation; containment in parent & root
    fn check_extent(&mut self, op: &str, parent: Ext, got_addr: usize, got_len: usize, want: Ext) -> bool {
        let mut ok = true;
        if got_addr != want.addr || got_len != want.len {
            self.fail(&format!("{}/extent-differs", op), jobj! {"got_addr_off" => got_addr.wrapping_sub(self.root.addr) as i64, "got_len" => got_len, "want_addr_off" => want.addr.wrapping_sub(self.root.addr) as i64, "want_len" => want.len});
            ok = false;
        }
        let inside = |outer: Ext| (got_addr as u128) >= outer.addr as u128 && got_addr as u128 + got_len as u128 <= outer.addr as u128 + outer.len as u128;
        if !inside(parent) || !inside(self.root) {
            self.fail(&format!("{}/outside-parent", op), jobj! {"got_addr_off" => got_addr.wrapping_sub(self.root.addr) as i64, "got_len" => got_len, "parent_off" => parent.addr.wrapping_sub(self.root.addr) as i64, "parent_len" => parent.len});
            ok = false;
        }
        ok
    }

    /// Use a slice: write a pattern through it, verify through the raw root pointer that exactly
    /// these bytes changed, read it back through the library.
    fn use_slice(&mut self, s: &VolatileSlice<()>, e: Ext, r: &mut Rng) {
        if e.len == 0 || self.bad {
            return;
        }
        let n = e.len.min(48);
        let o = if e.len > n { *r.pick(&[0usize, e.len - n]) } else { 0 };
        let pat = r.bytes(n);
        match s.write(&pat, o) {
            Ok(k) if k == n => {}
            other => {
                self.fail("use/write", jobj! {"got" => J::dbg(&other), "n" => n});
                return;
            }
        }
        let rel = e.addr - self.root.addr + o;
        self.model[rel..rel + n].copy_from_slice(&pat);
        let mut back = vec![0u8; n];
        if s.read(&mut back, o).ok() != Some(n) || back != pat {
            self.fail("use/read-back", jobj! {"n" => n});
        }
        self.frame("use");
    }

    fn frame(&mut self, op: &str) {
        let real = self.cont.read_all();
        let off0 = self.root.addr - self.cont.ptr() as usize;
        if real[off0..off0 + self.root.len] != self.model[..] {
            let at = real[off0..].iter().zip(self.model.iter()).position(|(a, b)| a != b);
            self.fail(&format!("{}/unexpected-bytes-changed", op), jobj! {"first_diff_at" => J::dbg(&at)});
            self.model = real[off0..off0 + self.root.len].to_vec();
        }
        if let Some(at) = self.cont.frame_broken() {
            self.fail(&format!("{}/wrote-outside-root", op), jobj! {"offset_rel_container" => at as i64});
            self.cont.repair_frame();
        }
    }
}

/// Keeps derived slices alive at stable addresses for the duration of one chain, so that
/// accessors borrowed from them (get_ref / get_array_ref tie their lifetime to `&self`) can be
/// chained further. Freed when the chain ends.
struct SliceArena {
    ptrs: Vec<*mut VolatileSlice<'static, ()>>,
}
impl SliceArena {
    fn hold<'a>(&mut self, s: VolatileSlice<'a, ()>) -> &'a VolatileSlice<'a, ()> {
        let b = Box::new(s);
        let p = Box::into_raw(b);
        self.ptrs.push(p as *mut VolatileSlice<'static, ()>);
        // SAFETY: the box is freed only when the SliceArena is dropped, which happens after the
        // last use of any reference handed out here (end of the chain).
        unsafe { &*p }
    }
}
impl Drop for SliceArena {
    fn drop(&mut self) {
        for p in self.ptrs.drain(..) {
            // SAFETY: created by Box::into_raw above, freed exactly once.
            unsafe { drop(Box::from_raw(p)) };
        }
    }
}

thread_local! { static TAIL: std::cell::RefCell<String> = std::cell::RefCell::new(String::new()); }
fn chain_tail_hint() -> String { TAIL.with(|t| t.borrow().clone()) }
fn set_tail(s: &str) { TAIL.with(|t| *t.borrow_mut() = s.to_string()); }

fn bclass(r: &mut Rng, len: usize, base: usize) -> (usize, &'static str) {
    edge_usize(r, len, base)
}

fn near_end(off: usize, n: u128, len: usize) -> bool {
    let end = off as u128 + n;
    (end as i128 - len as i128).abs() <= 9
}

macro_rules! typed_leaf {
    ($chain:expr, $s:expr, $e:expr, $r:expr, $T:ty, $tn:expr) => {{
        let cur = $e;
        let (off, oc) = bclass($r, cur.len, cur.addr);
        let sz = size_of::<$T>();
        let f = fits(cur.len, off, sz as u128);
        $chain.push_step(format!("get_ref::<{}>({})", $tn, off));
        let got = $s.get_ref::<$T>(off);
        let nontrivial = near_end(off, sz as u128, cur.len) || is_overflow_class(oc) || $chain.depth >= 2;
        out::key(&format!("get_ref|{}|{}|{}|d{}|{}", $tn, if got.is_ok() { "ok" } else { "err" }, oc, $chain.depth.min(4), $chain.root_kind), nontrivial);
        match got {
            Ok(rf) => {
                if !f {
                    $chain.fail("get_ref/accepted-nonfitting", jobj! {"type" => $tn, "off" => off, "parent_len" => cur.len});
                    None
                } else {
                    let g = rf.ptr_guard();
                    let want = Ext { addr: cur.addr + off, len: sz };
                    if $chain.check_extent("get_ref", cur, g.as_ptr() as usize, rf.len(), want) && g.len() == sz {
                        // use it: store + load (AddressSanitizer reports a zero-sized volatile
                        // access at a one-past-the-end address and dies printing it - a tool
                        // artefact, see DESIGN.md par. 12 - so zero-sized types are only used natively)
                        let b = $r.bytes(sz);
                        if sz > 0 || !asan_arena() {
                            rf.store(t_from_bytes::<$T>(&b));
                            let rel = want.addr - $chain.root.addr;
                            $chain.model[rel..rel + sz].copy_from_slice(&b);
                            if ByteValued::as_slice(&rf.load()) != &b[..] {
                                $chain.fail("get_ref/load-after-store", jobj! {"type" => $tn});
                            }
                        }
                        $chain.frame("VolatileRef::store");
                        let ts = rf.to_slice();
                        let tg = ts.ptr_guard();
                        if $chain.check_extent("VolatileRef::to_slice", cur, tg.as_ptr() as usize, ts.len(), want) {
                            Some((ts, want))
                        } else {
                            None
                        }
                    } else {
                        if g.len() != sz {
                            $chain.fail("get_ref/guard-len", jobj! {"type" => $tn, "got" => g.len(), "want" => sz});
                        }
                        None
                    }
                }
            }
            Err(_) => {
                if f {
                    { out::count("fits_but_rejected", 1); out::note("C01/fits-but-rejected", jobj!{"chain_tail" => chain_tail_hint()}); }
                }
                None
            }
        }
    }};
}

macro_rules! array_leaf {
    ($chain:expr, $s:expr, $e:expr, $r:expr, $T:ty, $tn:expr) => {{
        let cur = $e;
        let (off, oc) = bclass($r, cur.len, cur.addr);
        let sz = size_of::<$T>();
        let (n, nc) = if $r.chance(1, 2) { bclass($r, cur.len / sz.max(1), cur.addr) } else { ($r.usize_below(cur.len / sz.max(1) + 2), "inside") };
        let nbytes = n as u128 * sz as u128;
        let f = n <= isize::MAX as usize && nbytes <= isize::MAX as u128 && fits(cur.len, off, nbytes);
        $chain.push_step(format!("get_array_ref::<{}>({}, {})", $tn, off, n));
        let got = $s.get_array_ref::<$T>(off, n);
        let nontrivial = near_end(off, nbytes, cur.len) || is_overflow_class(oc) || is_overflow_class(nc) || $chain.depth >= 2;
        out::key(&format!("get_array_ref|{}|{}|{}|{}|d{}|{}", $tn, if got.is_ok() { "ok" } else { "err" }, oc, nc, $chain.depth.min(4), $chain.root_kind), nontrivial);
        match got {
            Ok(a) => {
                if !f {
                    $chain.fail("get_array_ref/accepted-nonfitting", jobj! {"type" => $tn, "off" => off, "count" => n, "parent_len" => cur.len});
                    None
                } else {
                    let want = Ext { addr: cur.addr + off, len: nbytes as usize };
                    let g = a.ptr_guard();
                    let ts = a.to_slice();
                    if a.len() != n {
                        $chain.fail("get_array_ref/len", jobj! {"got" => a.len(), "want" => n});
                    }
                    let mut res = None;
                    if $chain.check_extent("get_array_ref", cur, g.as_ptr() as usize, a.len() * a.element_size(), want)
                        && $chain.check_extent("VolatileArrayRef::to_slice", cur, ts.ptr_guard().as_ptr() as usize, ts.len(), want)
                    {
                        res = Some((ts, want));
                        // ref_at inside
                        if n > 0 {
                            let i = *$r.pick(&[0usize, n - 1, n / 2]);
                            $chain.push_step(format!("ref_at({})", i));
                            let rf = a.ref_at(i);
                            let w2 = Ext { addr: want.addr + i * sz, len: sz };
                            if $chain.check_extent("ref_at", want, rf.ptr_guard().as_ptr() as usize, rf.len(), w2) && sz > 0 {
                                let b = $r.bytes(sz);
                                rf.store(t_from_bytes::<$T>(&b));
                                let rel = w2.addr - $chain.root.addr;
                                $chain.model[rel..rel + sz].copy_from_slice(&b);
                                if ByteValued::as_slice(&a.load(i)) != &b[..] {
                                    $chain.fail("ref_at/load-after-store", jobj! {"type" => $tn, "index" => i});
                                }
                                $chain.frame("ref_at.store");
                                if $r.chance(1, 2) {
                                    res = Some((rf.to_slice(), w2));
                                }
                            }
                        }
                        // ref_at(i >= len) must not hand out an accessor
                        let bad_i = *$r.pick(&[n, n + 1, usize::MAX, n.wrapping_add(isize::MAX as usize)]);
                        if bad_i >= n {
                            let a2 = a;
                            match guarded(move || {
                                let rf = a2.ref_at(bad_i);
                                rf.ptr_guard().as_ptr() as usize
                            }) {
                                Ok(p) => $chain.fail("ref_at/out-of-range-index-accepted", jobj! {"type" => $tn, "index" => bad_i, "len" => n, "addr_off" => p.wrapping_sub($chain.root.addr) as i64}),
                                Err(_) => out::key(&format!("ref_at|oob-panics|{}", $tn), true),
                            }
                        }
                    }
                    res
                }
            }
            Err(_) => {
                if f {
                    { out::count("fits_but_rejected", 1); out::note("C01/fits-but-rejected", jobj!{"chain_tail" => chain_tail_hint()}); }
                }
                None
            }
        }
    }};
}

macro_rules! atomic_leaf {
    ($chain:expr, $s:expr, $e:expr, $r:expr, $A:ty, $an:expr) => {{
        let cur = $e;
        let (off, oc) = bclass($r, cur.len, cur.addr);
        let sz = size_of::<$A>();
        let f = fits(cur.len, off, sz as u128);
        let aligned = f && (cur.addr + off) % align_of::<$A>() == 0;
        $chain.push_step(format!("get_atomic_ref::<{}>({})", $an, off));
        let got = $s.get_atomic_ref::<$A>(off);
        out::key(&format!("get_atomic_ref|{}|{}|{}|{}|d{}", $an, if got.is_ok() { "ok" } else { "err" }, oc, if aligned { "al" } else { "mis" }, $chain.depth.min(4)), true);
        match got {
            Ok(rf) => {
                let p = rf as *const $A as usize;
                if !f {
                    $chain.fail("get_atomic_ref/accepted-nonfitting", jobj! {"type" => $an, "off" => off, "parent_len" => cur.len});
                } else if !aligned || p % align_of::<$A>() != 0 {
                    $chain.fail("get_atomic_ref/misaligned-reference", jobj! {"type" => $an, "addr_mod" => p % align_of::<$A>()});
                } else {
                    let want = Ext { addr: cur.addr + off, len: sz };
                    $chain.check_extent("get_atomic_ref", cur, p, sz, want);
                }
            }
            Err(_) => {
                if aligned {
                    { out::count("fits_but_rejected", 1); out::note("C01/fits-but-rejected", jobj!{"chain_tail" => chain_tail_hint()}); }
                }
            }
        }
    }};
}

macro_rules! aligned_leaf {
    ($chain:expr, $s:expr, $e:expr, $r:expr, $T:ty, $tn:expr) => {{
        let cur = $e;
        let (off, oc) = bclass($r, cur.len, cur.addr);
        let sz = size_of::<$T>();
        let f = fits(cur.len, off, sz as u128);
        let aligned = f && (cur.addr + off) % align_of::<$T>() == 0;
        let m = $r.chance(1, 2);
        $chain.push_step(format!("aligned_as_{}::<{}>({})", if m { "mut" } else { "ref" }, $tn, off));
        // SAFETY: the harness is the only user of the memory.
        let got: Result<usize, ()> = unsafe {
            if m {
                $s.aligned_as_mut::<$T>(off).map(|x| x as *mut $T as usize).map_err(|_| ())
            } else {
                $s.aligned_as_ref::<$T>(off).map(|x| x as *const $T as usize).map_err(|_| ())
            }
        };
        out::key(&format!("aligned_as|{}|{}|{}|{}|d{}", $tn, if got.is_ok() { "ok" } else { "err" }, oc, if aligned { "al" } else { "mis" }, $chain.depth.min(4)), true);
        match got {
            Ok(p) => {
                if !f {
                    $chain.fail("aligned_as/accepted-nonfitting", jobj! {"type" => $tn, "off" => off, "parent_len" => cur.len});
                } else if !aligned || p % align_of::<$T>() != 0 {
                    $chain.fail("aligned_as/misaligned-reference", jobj! {"type" => $tn, "addr_mod" => p % align_of::<$T>()});
                } else {
                    let want = Ext { addr: cur.addr + off, len: sz };
                    $chain.check_extent("aligned_as", cur, p, sz, want);
                }
            }
            Err(()) => {
                if aligned {
                    { out::count("fits_but_rejected", 1); out::note("C01/fits-but-rejected", jobj!{"chain_tail" => chain_tail_hint()}); }
                }
            }
        }
    }};
}

fn chain_from<'a>(chain: &mut Chain<'a>, start: VolatileSlice<'a, ()>, start_ext: Ext, r: &mut Rng, max_depth: usize) {
    let mut hold = SliceArena { ptrs: vec![] };
    let mut s: &'a VolatileSlice<'a, ()> = hold.hold(start);
    let mut e = start_ext;
    let depth_goal = 1 + r.usize_below(max_depth);
    let mut tries = 0;
    while chain.depth < depth_goal && tries < 4 * max_depth && !chain.bad {
        tries += 1;
        let k = r.below(100);
        let mut next: Option<(VolatileSlice<'a, ()>, Ext)> = None;
        let sk = |op: &str, ok: bool, oc: &str, cc: &str, nontrivial: bool, ch: &Chain| {
            out::key(&format!("{}|{}|{}|{}|d{}|{}", op, if ok { "ok" } else { "err" }, oc, cc, ch.depth.min(4), ch.root_kind), nontrivial);
        };
        match k {
            0..=19 => {
                // subslice / get_slice
                let (off, oc) = bclass(r, e.len, e.addr);
                let (cnt, cc) = if r.chance(1, 2) { bclass(r, e.len.saturating_sub(off.min(e.len)), e.addr) } else { (r.usize_below(e.len.saturating_sub(off.min(e.len)) + 2), "inside") };
                let via_trait = r.chance(1, 2);
                chain.push_step(format!("{}({}, {})", if via_trait { "get_slice" } else { "subslice" }, off, cnt));
                let got = if via_trait { s.get_slice(off, cnt) } else { s.subslice(off, cnt) };
                let f = fits(e.len, off, cnt as u128);
                sk(if via_trait { "get_slice" } else { "subslice" }, got.is_ok(), oc, cc, near_end(off, cnt as u128, e.len) || is_overflow_class(oc) || is_overflow_class(cc) || chain.depth >= 2, chain);
                match got {
                    Ok(ns) => {
                        if !f {
                            chain.fail("subslice/accepted-nonfitting", jobj! {"off" => off, "count" => cnt, "parent_len" => e.len});
                        } else {
                            let want = Ext { addr: e.addr + off, len: cnt };
                            if chain.check_extent("subslice", e, ns.ptr_guard().as_ptr() as usize, ns.len(), want) {
                                next = Some((ns, want));
                            }
                        }
                    }
                    Err(_) => {
                        if f {
                            { out::count("fits_but_rejected", 1); out::note("C01/fits-but-rejected", jobj!{"chain_tail" => chain_tail_hint()}); }
                        }
                    }
                }
            }
            20..=31 => {
                let (cnt, cc) = bclass(r, e.len, e.addr);
                chain.push_step(format!("offset({})", cnt));
                let got = s.offset(cnt);
                let f = cnt <= e.len;
                sk("offset", got.is_ok(), cc, "-", (cnt as i128 - e.len as i128).abs() <= 9 || is_overflow_class(cc) || chain.depth >= 2, chain);
                match got {
                    Ok(ns) => {
                        if !f {
                            chain.fail("offset/accepted-nonfitting", jobj! {"count" => cnt, "parent_len" => e.len});
                        } else {
                            let want = Ext { addr: e.addr + cnt, len: e.len - cnt };
                            if chain.check_extent("offset", e, ns.ptr_guard().as_ptr() as usize, ns.len(), want) {
                                next = Some((ns, want));
                            }
                        }
                    }
                    Err(_) => {
                        if f {
                            { out::count("fits_but_rejected", 1); out::note("C01/fits-but-rejected", jobj!{"chain_tail" => chain_tail_hint()}); }
                        }
                    }
                }
            }
            32..=41 => {
                let (mid, mc) = bclass(r, e.len, e.addr);
                chain.push_step(format!("split_at({})", mid));
                let got = s.split_at(mid);
                let f = mid <= e.len;
                sk("split_at", got.is_ok(), mc, "-", (mid as i128 - e.len as i128).abs() <= 9 || is_overflow_class(mc) || chain.depth >= 2, chain);
                match got {
                    Ok((a, b)) => {
                        if !f {
                            chain.fail("split_at/accepted-nonfitting", jobj! {"mid" => mid, "parent_len" => e.len});
                        } else {
                            let wa = Ext { addr: e.addr, len: mid };
                            let wb = Ext { addr: e.addr + mid, len: e.len - mid };
                            let oka = chain.check_extent("split_at.0", e, a.ptr_guard().as_ptr() as usize, a.len(), wa);
                            let okb = chain.check_extent("split_at.1", e, b.ptr_guard().as_ptr() as usize, b.len(), wb);
                            if oka && okb {
                                next = Some(if r.chance(1, 2) { (a, wa) } else { (b, wb) });
                            }
                        }
                    }
                    Err(_) => {
                        if f {
                            { out::count("fits_but_rejected", 1); out::note("C01/fits-but-rejected", jobj!{"chain_tail" => chain_tail_hint()}); }
                        }
                    }
                }
            }
            42..=45 => {
                chain.push_step("as_volatile_slice()".into());
                let ns = s.as_volatile_slice();
                if chain.check_extent("as_volatile_slice", e, ns.ptr_guard().as_ptr() as usize, ns.len(), e) {
                    next = Some((ns, e));
                }
                sk("as_volatile_slice", true, "-", "-", chain.depth >= 2, chain);
            }
            46..=49 => {
                chain.push_step("VolatileArrayRef::from(slice).to_slice()".into());
                let a: VolatileArrayRef<u8, ()> = VolatileArrayRef::from(*s);
                let ns = a.to_slice();
                if a.len() != e.len {
                    chain.fail("ArrayRef::from/len", jobj! {"got" => a.len(), "want" => e.len});
                }
                if chain.check_extent("ArrayRef::from.to_slice", e, ns.ptr_guard().as_ptr() as usize, ns.len(), e) {
                    next = Some((ns, e));
                }
                sk("array_from_slice", true, "-", "-", chain.depth >= 2, chain);
            }
            50..=64 => {
                next = match r.below(11) {
                    0 => typed_leaf!(chain, s, e, r, u8, "u8"),
                    1 => typed_leaf!(chain, s, e, r, u16, "u16"),
                    2 => typed_leaf!(chain, s, e, r, u32, "u32"),
                    3 => typed_leaf!(chain, s, e, r, u64, "u64"),
                    4 => typed_leaf!(chain, s, e, r, u128, "u128"),
                    5 => typed_leaf!(chain, s, e, r, usize, "usize"),
                    6 => typed_leaf!(chain, s, e, r, [u8; 3], "[u8;3]"),
                    7 => typed_leaf!(chain, s, e, r, [u16; 5], "[u16;5]"),
                    8 => typed_leaf!(chain, s, e, r, [u8; 0], "[u8;0]"),
                    9 => typed_leaf!(chain, s, e, r, Le32, "Le32"),
                    _ => typed_leaf!(chain, s, e, r, Be64, "Be64"),
                };
            }
            65..=82 => {
                next = match r.below(11) {
                    0 => array_leaf!(chain, s, e, r, u8, "u8"),
                    1 => array_leaf!(chain, s, e, r, u16, "u16"),
                    2 => array_leaf!(chain, s, e, r, u32, "u32"),
                    3 => array_leaf!(chain, s, e, r, u64, "u64"),
                    4 => array_leaf!(chain, s, e, r, u128, "u128"),
                    5 => array_leaf!(chain, s, e, r, usize, "usize"),
                    6 => array_leaf!(chain, s, e, r, [u8; 3], "[u8;3]"),
                    7 => array_leaf!(chain, s, e, r, [u16; 5], "[u16;5]"),
                    8 => array_leaf!(chain, s, e, r, [u8; 0], "[u8;0]"),
                    9 => array_leaf!(chain, s, e, r, Le32, "Le32"),
                    _ => array_leaf!(chain, s, e, r, Be64, "Be64"),
                };
            }
            83..=89 => match r.below(5) {
                0 => atomic_leaf!(chain, s, e, r, AtomicU8, "AtomicU8"),
                1 => atomic_leaf!(chain, s, e, r, AtomicU16, "AtomicU16"),
                2 => atomic_leaf!(chain, s, e, r, AtomicU32, "AtomicU32"),
                3 => atomic_leaf!(chain, s, e, r, AtomicU64, "AtomicU64"),
                _ => atomic_leaf!(chain, s, e, r, AtomicUsize, "AtomicUsize"),
            },
            90..=95 => match r.below(5) {
                0 => aligned_leaf!(chain, s, e, r, u16, "u16"),
                1 => aligned_leaf!(chain, s, e, r, u32, "u32"),
                2 => aligned_leaf!(chain, s, e, r, u64, "u64"),
                3 => aligned_leaf!(chain, s, e, r, u128, "u128"),
                _ => aligned_leaf!(chain, s, e, r, [u16; 5], "[u16;5]"),
            },
            _ => {
                let (b, bc) = bclass(r, e.len, e.addr);
                let (o, oc) = bclass(r, e.len.saturating_sub(b.min(e.len)), e.addr);
                chain.push_step(format!("compute_end_offset({}, {})", b, o));
                let got = s.compute_end_offset(b, o);
                let sum = b as u128 + o as u128;
                let f = sum <= e.len as u128;
                sk("compute_end_offset", got.is_ok(), bc, oc, true, chain);
                match got {
                    Ok(x) => {
                        if !f || x as u128 != sum {
                            chain.fail("compute_end_offset/accepted-nonfitting", jobj! {"base" => b, "offset" => o, "got" => x, "len" => e.len});
                        }
                    }
                    Err(_) => {
                        if f {
                            { out::count("fits_but_rejected", 1); out::note("C01/fits-but-rejected", jobj!{"chain_tail" => chain_tail_hint()}); }
                        }
                    }
                }
            }
        }
        if let Some((ns, ne)) = next {
            s = hold.hold(ns);
            e = ne;
            chain.depth += 1;
            chain.use_slice(s, e, r);
        }
    }
    out::set_max("max_depth_reached", chain.depth as i128);
    if chain.depth >= 2 {
        out::count("chains_depth_ge2", 1);
    }
}

fn run_case(case: u64, args: &Args) {
    let mut r = Rng::new(args.seed(), "c01", case);
    let max_depth = args.u64("depth", 6) as usize;
    let size = match r.below(12) {
        0 => 0,
        1 => r.usize_below(9),
        2 if !cfg!(miri) => 4096,
        3 if !cfg!(miri) => 65536,
        4 if !cfg!(miri) => 4090 + r.usize_below(12),
        _ => r.usize_below(if cfg!(miri) { 80 } else { 301 }),
    };
    let kind = r.below(10);
    out::case(case, jobj! {"op" => "chain", "size" => size, "kind" => kind});
    if kind < 7 || size == 0 {
        let cont = match kind {
            0 | 1 => Cont::arena(size, Place::L),
            2 | 3 => Cont::arena(size, Place::R),
            4 if size > 0 => Cont::mmap(size),
            _ => Cont::arena(size, Place::C(r.usize_below(16))),
        };
        let init = r.bytes(size);
        cont.fill(&init);
        let root = Ext { addr: cont.ptr() as usize, len: size };
        let mut chain = Chain { root, root_kind: cont.kind(), cont: &cont, model: init, steps: vec![], depth: 0, bad: false };
        let res = guarded(|| {
            let start = cont.slice();
            let g = start.ptr_guard();
            if !chain.check_extent("root-slice", root, g.as_ptr() as usize, start.len(), root) {
                return;
            }
            // MmapRegion roots: derive through the region's own VolatileMemory impl first
            if let Cont::Mmap(reg, _) = &cont {
                let (off, oc) = bclass(&mut r, size, root.addr);
                let (cnt, cc) = bclass(&mut r, size.saturating_sub(off.min(size)), root.addr);
                chain.push_step(format!("MmapRegion::get_slice({}, {})", off, cnt));
                let f = fits(size, off, cnt as u128);
                let got = reg.get_slice(off, cnt);
                out::key(&format!("MmapRegion::get_slice|{}|{}|{}", if got.is_ok() { "ok" } else { "err" }, oc, cc), true);
                match got {
                    Ok(ns) => {
                        if !f {
                            chain.fail("MmapRegion::get_slice/accepted-nonfitting", jobj! {"off" => off, "count" => cnt, "size" => size});
                            return;
                        }
                        let want = Ext { addr: root.addr + off, len: cnt };
                        if chain.check_extent("MmapRegion::get_slice", root, ns.ptr_guard().as_ptr() as usize, ns.len(), want) {
                            chain.depth = 1;
                            chain.use_slice(&ns, want, &mut r);
                            chain_from(&mut chain, ns, want, &mut r, max_depth);
                            return;
                        }
                    }
                    Err(_) => {
                        if f {
                            { out::count("fits_but_rejected", 1); out::note("C01/fits-but-rejected", jobj!{"chain_tail" => chain_tail_hint()}); }
                        }
                    }
                }
            }
            chain_from(&mut chain, start, root, &mut r, max_depth);
        });
        if let Err(p) = res {
            v(&format!("panic/{}", panic_sig(&p)), jobj! {"panic" => p, "chain" => chain.steps.clone()});
        }
        if out::want_sample() && chain.depth >= 3 {
            out::sample(jobj! {"root" => cont.kind(), "root_len" => size, "chain" => chain.steps.clone(), "depth" => chain.depth});
        }
    } else {
        // guest-region / guest-memory roots
        let cont = Cont::mmap(size);
        let Cont::Mmap(reg, slack) = cont else { unreachable!() };
        let base_ptr = reg.as_ptr();
        let gstart = *r.pick(&[0u64, 0x1000, 0xffff_0000, u64::MAX - size as u64 - 1]);
        let region = GuestRegionMmap::new(reg, GuestAddress(gstart)).unwrap();
        let gm = GuestMemoryMmap::from_regions(vec![region]).unwrap();
        let region = gm.iter().next().unwrap();
        let init = r.bytes(size);
        for (i, b) in init.iter().enumerate() {
            unsafe { base_ptr.add(i).write_volatile(*b) };
        }
        // a Cont view for frame checks (slack canaries were painted by Cont::mmap): rebuild a shallow arena-like view
        let root = Ext { addr: base_ptr as usize, len: size };
        let (off, oc) = bclass(&mut r, size, root.addr);
        let (cnt, cc) = bclass(&mut r, size.saturating_sub(off.min(size)), root.addr);
        let f = fits(size, off, cnt as u128);
        let via_mem = kind == 9;
        let res = guarded(|| {
            let got = if via_mem {
                gm.get_slice(GuestAddress(gstart.wrapping_add(off as u64)), cnt).map_err(|_| ())
            } else {
                region.get_slice(MemoryRegionAddress(off as u64), cnt).map_err(|_| ())
            };
            let name = if via_mem { "GuestMemory::get_slice" } else { "GuestRegion::get_slice" };
            out::key(&format!("{}|{}|{}|{}", name, if got.is_ok() { "ok" } else { "err" }, oc, cc), true);
            // for the memory-level form the address wraps in guest space; only judge non-wrapping requests
            let judged = !via_mem || gstart.checked_add(off as u64).is_some();
            match got {
                Ok(ns) if judged => {
                    let p = ns.ptr_guard().as_ptr() as usize;
                    if !f || p != root.addr + off || ns.len() != cnt {
                        v(&format!("{}/extent", name), jobj! {"off" => off, "count" => cnt, "size" => size, "fits" => f, "got_off" => p.wrapping_sub(root.addr) as i64, "got_len" => ns.len()});
                    } else if cnt > 0 {
                        // use
                        let n = cnt.min(32);
                        let pat = r.bytes(n);
                        let _ = ns.write(&pat, 0);
                        for i in 0..size {
                            let want = if i >= off && i < off + n { pat[i - off] } else { init[i] };
                            if unsafe { base_ptr.add(i).read_volatile() } != want {
                                v(&format!("{}/use-wrote-elsewhere", name), jobj! {"off" => off, "count" => cnt, "at" => i});
                                break;
                            }
                        }
                    }
                }
                _ => {}
            }
            // host address
            let ha = region.get_host_address(MemoryRegionAddress(off as u64));
            match ha {
                Ok(p) => {
                    if off >= size || p as usize != root.addr + off {
                        v("get_host_address/outside-region", jobj! {"off" => off, "size" => size});
                    }
                }
                Err(_) => {}
            }
            for i in 0..slack {
                if unsafe { base_ptr.add(size + i).read_volatile() } != 0xC7 {
                    v("guest-root/wrote-into-mapping-slack", jobj! {"at" => size + i});
                    break;
                }
            }
        });
        if let Err(p) = res {
            v(&format!("panic/{}", panic_sig(&p)), jobj! {"panic" => p, "root" => "guest"});
        }
    }
}

/// ByteValued::from_slice / from_mut_slice: only exact length + aligned slices give a reference.
fn from_slice_grid() {
    let mut n = 0u64;
    macro_rules! one {
        ($T:ty, $tn:expr) => {
            for len in 0..24usize {
                for mis in 0..8usize {
                    let mut buf = crate::mon_c04::ABuf::new(len, mis, |i| i as u8);
                    let p0 = buf.as_ref().as_ptr() as usize;
                    let want = len == size_of::<$T>() && p0 % align_of::<$T>() == 0;
                    let got = <$T>::from_slice(buf.as_ref()).map(|x| x as *const $T as usize);
                    let gotm = <$T>::from_mut_slice(buf.as_mut()).map(|x| x as *mut $T as usize);
                    for (g, nm) in [(got, "from_slice"), (gotm, "from_mut_slice")] {
                        match g {
                            Some(p) => {
                                if !want || p != p0 {
                                    v(&format!("{}/bad-reference", nm), jobj! {"type" => $tn, "len" => len, "misalign" => mis});
                                }
                            }
                            None => {
                                if want {
                                    { out::count("fits_but_rejected", 1); out::note("C01/fits-but-rejected", jobj!{"chain_tail" => chain_tail_hint()}); }
                                }
                            }
                        }
                    }
                    out::key(&format!("from_slice|{}|{}|{}", $tn, if want { "some" } else { "none" }, if len == size_of::<$T>() { "len=" } else { "len!=" }), true);
                    n += 2;
                }
            }
        };
    }
    one!(u8, "u8");
    one!(u16, "u16");
    one!(u32, "u32");
    one!(u64, "u64");
    one!(u128, "u128");
    one!([u16; 5], "[u16;5]");
    one!(Le32, "Le32");
    one!([u8; 0], "[u8;0]");
    out::eval(n);
}

/// Atomic accesses at REGION and GUEST-MEMORY level on regions whose length is not a multiple of
/// the access width: the reference handed out internally must fit inside the region, so an
/// aligned access whose first byte is mapped but whose last byte is not must be refused, and the
/// bytes of the mapping's tail page beyond the region must stay untouched.
fn region_atomic_grid() {
    use std::sync::atomic::Ordering;
    use vm_memory::{Bytes, GuestAddress, GuestMemory, GuestMemoryMmap, GuestMemoryRegion, GuestRegionMmap, MemoryRegionAddress};
    let sizes: &[usize] = if cfg!(miri) { &[1, 3, 6, 9, 15] } else { &[1, 2, 3, 5, 6, 7, 9, 12, 15, 17, 4090, 4093, 4094, 4095, 4097, 4098, 4102, 8190] };
    for &len in sizes {
        let reg = GuestRegionMmap::<()>::from_range(GuestAddress(0x4000), len, None).expect("region");
        let host = reg.as_ptr() as usize;
        let tail_end = if cfg!(miri) { len } else { len.div_ceil(4096) * 4096 };
        let gm_regs = vec![
            GuestRegionMmap::<()>::from_range(GuestAddress(0x10000), len, None).unwrap(),
            GuestRegionMmap::<()>::from_range(GuestAddress(0x10000 + len as u64), 16, None).unwrap(),
        ];
        let gm = GuestMemoryMmap::from_regions(gm_regs).unwrap();
        macro_rules! at {
            ($T:ty, $tn:expr) => {
                let sz = size_of::<$T>();
                for off in len.saturating_sub(2 * sz + 1)..=len + 1 {
                    let fits = off.checked_add(sz).map_or(false, |e| e <= len);
                    let aligned = (host + off) % sz == 0;
                    let want_ok = fits && aligned;
                    let val: $T = (0x5152535455565758u64 as $T) ^ (off as $T);
                    let r1 = guarded(|| reg.store::<$T>(val, MemoryRegionAddress(off as u64), Ordering::SeqCst));
                    let r2 = guarded(|| reg.load::<$T>(MemoryRegionAddress(off as u64), Ordering::SeqCst));
                    match (&r1, &r2) {
                        (Ok(a), Ok(b)) => {
                            if a.is_ok() != want_ok || b.is_ok() != want_ok || (want_ok && b.as_ref().ok() != Some(&val)) {
                                v(&format!("region-atomic/{}/{}", $tn, if want_ok { "fitting-aligned-access-refused-or-wrong" } else if !fits { "accepted-nonfitting" } else { "accepted-misaligned" }),
                                  jobj! {"region_len" => len, "off" => off, "store_ok" => a.is_ok(), "load_ok" => b.is_ok()});
                            }
                        }
                        _ => v(&format!("region-atomic/{}/panic", $tn), jobj! {"region_len" => len, "off" => off}),
                    }
                    // nothing beyond the region may have been written
                    for k in len..tail_end {
                        // SAFETY: inside the (page granular) mapping of the region.
                        if unsafe { ((host + k) as *const u8).read_volatile() } != 0 {
                            v(&format!("region-atomic/{}/wrote-beyond-region", $tn), jobj! {"region_len" => len, "off" => off, "dirty_tail_byte" => k});
                            unsafe { ((host + k) as *mut u8).write_volatile(0) };
                            break;
                        }
                    }
                    // guest level: an access that would cross into the adjacent next region is refused too
                    let ghost = gm.iter().next().unwrap().as_ptr() as usize;
                    let gwant = fits && (ghost + off) % sz == 0;
                    let g1 = guarded(|| gm.store::<$T>(val, GuestAddress(0x10000 + off as u64), Ordering::SeqCst));
                    let in_first = off < len;
                    if let Ok(g) = &g1 {
                        if in_first && g.is_ok() != gwant {
                            v(&format!("guest-atomic/{}/{}", $tn, if gwant { "fitting-aligned-access-refused" } else { "accepted-nonfitting-or-misaligned" }), jobj! {"region_len" => len, "off" => off, "store_ok" => g.is_ok()});
                        }
                    } else {
                        v(&format!("guest-atomic/{}/panic", $tn), jobj! {"region_len" => len, "off" => off});
                    }
                    out::key(&format!("region-atomic|{}|len%{}={}|{}|{}", $tn, sz, len % sz, if fits { "fits" } else if off < len { "straddles-end" } else { "beyond" }, if aligned { "aligned" } else { "misaligned" }), true);
                    out::eval(3);
                }
            };
        }
        at!(u8, "u8");
        at!(u16, "u16");
        at!(u32, "u32");
        at!(u64, "u64");
        at!(i32, "i32");
        at!(usize, "usize");
    }
    out::count("region_atomic_grid_sizes", sizes.len() as i128);
}

/// CALLER-DEFINED implementations of the library's safe extension trait `AtomicAccess`: nothing
/// ties the size of the value type to the size of the atomic it is accessed through, so the
/// access made is as wide as the ATOMIC. It must fit the parent and be aligned for the atomic.
mod custom_atomic {
    use std::sync::atomic::{AtomicU32, AtomicU64, AtomicU8};
    use vm_memory::{AtomicAccess, ByteValued};
    macro_rules! custom {
        ($N:ident, $V:ty, $A:ty, $AV:ty) => {
            #[repr(transparent)]
            #[derive(Clone, Copy, Debug, Default, PartialEq, Eq)]
            pub struct $N(pub $V);
            // SAFETY: transparent wrapper around a plain integer.
            unsafe impl ByteValued for $N {}
            impl From<$AV> for $N {
                fn from(v: $AV) -> Self {
                    $N(v as $V)
                }
            }
            impl From<$N> for $AV {
                fn from(v: $N) -> $AV {
                    v.0 as $AV
                }
            }
            impl AtomicAccess for $N {
                type A = $A;
            }
        };
    }
    custom!(ByteInU64, u8, AtomicU64, u64);
    custom!(HalfInU32, u16, AtomicU32, u32);
    custom!(WordInU8, u64, AtomicU8, u8);
    custom!(SameU32, u32, AtomicU32, u32);
}

fn custom_atomic_access_grid() {
    use custom_atomic::*;
    use std::sync::atomic::Ordering;
    use vm_memory::{AtomicAccess, Bytes, GuestAddress, GuestMemory, GuestMemoryMmap, GuestMemoryRegion, GuestRegionMmap, MemoryRegionAddress, VolatileSlice};
    fn one<T: AtomicAccess + Copy + PartialEq + std::fmt::Debug>(tn: &str, val: T, lens: &[usize]) {
        let asz = size_of::<T::A>();
        let aal = align_of::<T::A>();
        for &len in lens {
            let reg = GuestRegionMmap::<()>::from_range(GuestAddress(0x4000), len, None).expect("region");
            let host = reg.as_ptr() as usize;
            let tail_end = if cfg!(miri) { len } else { len.div_ceil(4096) * 4096 };
            let gm = GuestMemoryMmap::from_regions(vec![
                GuestRegionMmap::<()>::from_range(GuestAddress(0x10000), len, None).unwrap(),
                GuestRegionMmap::<()>::from_range(GuestAddress(0x10000 + len as u64), 16, None).unwrap(),
            ])
            .unwrap();
            let ghost = gm.iter().next().unwrap().as_ptr() as usize;
            // slice level: a window of `len` bytes in the middle of a 64-byte local block (canaries around)
            #[repr(align(16))]
            struct Blk([u8; 4096 + 64]);
            let mut blk = Box::new(Blk([0xA5; 4096 + 64]));
            let sl_len = len.min(4096);
            let base = blk.0.as_mut_ptr() as usize + 16;
            for off in len.saturating_sub(2 * asz + 1)..=len + 1 {
                let fits = off.checked_add(asz).map_or(false, |e| e <= len);
                // ---- region level
                let want = fits && (host + off) % aal == 0;
                let r1 = guarded(|| reg.store::<T>(val, MemoryRegionAddress(off as u64), Ordering::SeqCst).is_ok());
                let r2 = guarded(|| reg.load::<T>(MemoryRegionAddress(off as u64), Ordering::SeqCst).ok());
                match (&r1, &r2) {
                    (Ok(a), Ok(b)) => {
                        if *a != want || b.is_some() != want {
                            v(&format!("custom-atomic/{}/region/{}", tn, if want { "fitting-aligned-access-refused" } else { "access-wider-than-the-remaining-parent-or-misaligned-accepted" }), jobj! {"region_len" => len, "off" => off, "atomic_width" => asz, "value_width" => size_of::<T>(), "store_ok" => *a, "load_ok" => b.is_some()});
                        }
                    }
                    _ => v(&format!("custom-atomic/{}/region/panic", tn), jobj! {"region_len" => len, "off" => off}),
                }
                for k in len..tail_end {
                    // SAFETY: inside the (page granular) mapping of the region.
                    if unsafe { ((host + k) as *const u8).read_volatile() } != 0 {
                        v(&format!("custom-atomic/{}/region/wrote-beyond-region", tn), jobj! {"region_len" => len, "off" => off, "dirty_tail_byte" => k});
                        unsafe { ((host + k) as *mut u8).write_volatile(0) };
                        break;
                    }
                }
                // ---- guest level (the next region is adjacent: spilling into it is refused too)
                if off < len {
                    let gwant = fits && (ghost + off) % aal == 0;
                    match guarded(|| gm.store::<T>(val, GuestAddress(0x10000 + off as u64), Ordering::SeqCst).is_ok()) {
                        Ok(g) if g == gwant => {}
                        Ok(g) => v(&format!("custom-atomic/{}/guest/{}", tn, if gwant { "fitting-aligned-access-refused" } else { "access-wider-than-the-remaining-region-or-misaligned-accepted" }), jobj! {"region_len" => len, "off" => off, "atomic_width" => asz, "store_ok" => g}),
                        Err(_) => v(&format!("custom-atomic/{}/guest/panic", tn), jobj! {"region_len" => len, "off" => off}),
                    }
                    let next_first = gm.read_obj::<[u8; 16]>(GuestAddress(0x10000 + len as u64)).unwrap();
                    if next_first != [0u8; 16] {
                        v(&format!("custom-atomic/{}/guest/wrote-into-the-next-region", tn), jobj! {"region_len" => len, "off" => off});
                        let _ = gm.write_obj([0u8; 16], GuestAddress(0x10000 + len as u64));
                    }
                }
                // ---- slice level
                if off <= sl_len + 1 && sl_len == len {
                    // SAFETY: `sl_len` bytes inside the boxed block, which outlives the slice.
                    let s = unsafe { VolatileSlice::new(base as *mut u8, sl_len) };
                    let swant = fits && (base + off) % aal == 0;
                    match guarded(|| (s.store::<T>(val, off, Ordering::SeqCst).is_ok(), s.load::<T>(off, Ordering::SeqCst).is_ok())) {
                        Ok((a, b)) if a == swant && b == swant => {}
                        Ok((a, b)) => v(&format!("custom-atomic/{}/slice/{}", tn, if swant { "fitting-aligned-access-refused" } else { "access-wider-than-the-remaining-parent-or-misaligned-accepted" }), jobj! {"slice_len" => len, "off" => off, "atomic_width" => asz, "store_ok" => a, "load_ok" => b}),
                        Err(_) => v(&format!("custom-atomic/{}/slice/panic", tn), jobj! {"slice_len" => len, "off" => off}),
                    }
                    let outside_ok = blk.0[..16].iter().chain(blk.0[16 + sl_len..].iter()).all(|b| *b == 0xA5);
                    if !outside_ok {
                        v(&format!("custom-atomic/{}/slice/wrote-outside-the-slice", tn), jobj! {"slice_len" => len, "off" => off});
                        blk.0.iter_mut().for_each(|b| *b = 0xA5);
                    }
                }
                out::key(&format!("custom-atomic|{}|len%{}={}|{}", tn, asz, len % asz, if fits { "fits" } else if off < len { "straddles-end" } else { "beyond" }), true);
                out::eval(3);
            }
        }
    }
    let lens: &[usize] = if cfg!(miri) { &[1, 3, 9, 15] } else { &[1, 2, 3, 5, 7, 8, 9, 12, 15, 16, 17, 4090, 4095, 4096, 4097, 4102] };
    one::<ByteInU64>("u8-through-AtomicU64", ByteInU64(0x5a), lens);
    one::<HalfInU32>("u16-through-AtomicU32", HalfInU32(0x5a5b), lens);
    one::<WordInU8>("u64-through-AtomicU8", WordInU8(0x77), lens);
    one::<SameU32>("u32-through-AtomicU32", SameU32(0x51525354), lens);
}

/// Types whose ALIGNMENT exceeds what the library's own types have: caller-defined `ByteValued`
/// types aligned to 16 ... 8192 bytes (beyond a page) accessed directly on a mapped region whose
/// base is an odd multiple of the page size, and a caller-defined `AtomicInteger` that is larger and
/// more strictly aligned than its value type. A typed / atomic reference is handed out only for an
/// address aligned for the type REFERENCED. Runs in a forked child: handing out a misaligned
/// reference makes rustc's debug check abort the process, which is then the observation.
#[cfg(not(any(miri, feature = "xen")))]
pub(crate) mod overaligned {
    use std::sync::atomic::{AtomicU64, Ordering};
    use vm_memory::{AtomicAccess, AtomicInteger, ByteValued};
    macro_rules! al {
        ($N:ident, $a:expr) => {
            #[repr(C, align($a))]
            #[derive(Clone, Copy)]
            pub struct $N(pub [u8; $a]);
            impl Default for $N {
                fn default() -> Self {
                    $N([0; $a])
                }
            }
            // SAFETY: plain bytes, no padding (size == alignment).
            unsafe impl ByteValued for $N {}
        };
    }
    al!(A16, 16);
    al!(A64, 64);
    al!(A4096, 4096);
    al!(A8192, 8192);
    /// two atomics, 16 bytes, aligned to 16; the value is the first one
    #[repr(C, align(16))]
    pub struct PaddedAtomicU64(AtomicU64, AtomicU64);
    // SAFETY: consists exclusively of std atomics.
    unsafe impl AtomicInteger for PaddedAtomicU64 {
        type V = u64;
        fn new(v: u64) -> Self {
            PaddedAtomicU64(AtomicU64::new(v), AtomicU64::new(0))
        }
        fn load(&self, o: Ordering) -> u64 {
            self.0.load(o)
        }
        fn store(&self, v: u64, o: Ordering) {
            self.0.store(v, o)
        }
    }
    #[repr(transparent)]
    #[derive(Clone, Copy, Debug, Default, PartialEq, Eq)]
    pub struct ViaPadded(pub u64);
    // SAFETY: transparent wrapper around u64.
    unsafe impl ByteValued for ViaPadded {}
    impl From<u64> for ViaPadded {
        fn from(v: u64) -> Self {
            ViaPadded(v)
        }
    }
    impl From<ViaPadded> for u64 {
        fn from(v: ViaPadded) -> u64 {
            v.0
        }
    }
    impl AtomicAccess for ViaPadded {
        type A = PaddedAtomicU64;
    }
}

#[cfg(not(any(miri, feature = "xen")))]
fn overaligned_types_and_atomics() {
    use crate::common::fork::{self, Exit};
    use overaligned::*;
    use std::sync::atomic::Ordering;
    use vm_memory::{Bytes, MmapRegion, VolatileMemory};
    let ex = fork::run(30, || {
        let mut report = String::new();
        let total = 256 * 1024;
        // SAFETY: fresh private mapping of our own.
        let p = unsafe { libc::mmap(std::ptr::null_mut(), total, libc::PROT_READ | libc::PROT_WRITE, libc::MAP_PRIVATE | libc::MAP_ANONYMOUS, -1, 0) } as usize;
        let x = p.div_ceil(65536) * 65536;
        for k in 0..4usize {
            let base = x + 4096 * k;
            let len = 6 * 4096 + 100;
            // SAFETY: a window inside our mapping, which stays mapped until the child exits.
            let reg = unsafe { MmapRegion::<()>::build_raw(base as *mut u8, len, libc::PROT_READ | libc::PROT_WRITE, libc::MAP_PRIVATE | libc::MAP_ANONYMOUS) }.unwrap();
            let offs: Vec<usize> = (0..6).flat_map(|pg| [pg * 4096, pg * 4096 + 16, pg * 4096 + 64, pg * 4096 + 8]).chain([len - 16, len - 8, len]).collect();
            macro_rules! ty {
                ($T:ty, $tn:expr) => {
                    for &off in &offs {
                        let fits = off + size_of::<$T>() <= len;
                        let want = fits && (base + off) % align_of::<$T>() == 0;
                        // SAFETY: nothing else refers to the window; the references are not used.
                        let r1 = unsafe { reg.aligned_as_ref::<$T>(off) }.is_ok();
                        // SAFETY: no other reference into the window exists.
                        let r2 = unsafe { reg.aligned_as_mut::<$T>(off) }.is_ok();
                        let r3 = reg.get_slice(0, len).map(|s| unsafe { s.aligned_as_ref::<$T>(off) }.is_ok()).unwrap_or(false);
                        if r1 != want || r2 != want || r3 != want {
                            report.push_str(&format!("{} at region base%65536={:#x} offset {:#x}: address aligned+fits={} but region.aligned_as_ref ok={} region.aligned_as_mut ok={} slice.aligned_as_ref ok={}; ", $tn, base % 65536, off, want, r1, r2, r3));
                        }
                        // typed references without an alignment requirement still only need to fit
                        if reg.get_ref::<$T>(off).is_ok() != fits {
                            report.push_str(&format!("{} get_ref at offset {:#x}: ok != fits({}); ", $tn, off, fits));
                        }
                    }
                };
            }
            ty!(A16, "align(16)");
            ty!(A64, "align(64)");
            ty!(A4096, "align(4096)");
            ty!(A8192, "align(8192)");
            ty!(u128, "u128");
            // the over-aligned atomic: through get_atomic_ref and through store / load
            for &off in &offs {
                let fits = off + 16 <= len;
                let want = fits && (base + off) % 16 == 0;
                let g = reg.get_atomic_ref::<PaddedAtomicU64>(off).is_ok();
                let st = reg.get_slice(0, len).map(|s| s.store(ViaPadded(7), off, Ordering::SeqCst).is_ok()).unwrap_or(false);
                let ld = reg.get_slice(0, len).map(|s| s.load::<ViaPadded>(off, Ordering::SeqCst).is_ok()).unwrap_or(false);
                if g != want || st != want || ld != want {
                    report.push_str(&format!("16-byte-aligned atomic at offset {:#x}: address aligned+fits={} but get_atomic_ref ok={} store ok={} load ok={}; ", off, want, g, st, ld));
                }
            }
        }
        report.truncate(1500);
        report.into_bytes()
    });
    match ex {
        Exit::Ok(rep) if rep.is_empty() => {
            out::key("overaligned|types-16..8192+padded-atomic|region-base-odd-page", true);
            out::eval(4 * 27 * 6);
        }
        Exit::Ok(rep) => v("overaligned/reference-handed-out-for-a-misaligned-address-or-aligned-one-refused", J::s(String::from_utf8_lossy(&rep).to_string())),
        Exit::Signal(sig) => v("overaligned/process-aborted-inside-the-library (misaligned reference created)", jobj! {"signal" => fork::signal_name(sig)}),
        Exit::Panic(p) => v(&format!("overaligned/panic/{}", crate::common::panic_sig(&p)), J::s(p)),
        other => out::note("C01/overaligned-child-inconclusive", J::dbg(&other)),
    }
}

pub fn run(args: &Args) {
    let (si, _) = args.shard();
    if si == 0 {
        from_slice_grid();
        region_atomic_grid();
        custom_atomic_access_grid();
        #[cfg(not(any(miri, feature = "xen")))]
        if std::env::var("VMV_ARENA").as_deref() != Ok("heap") {
            overaligned_types_and_atomics();
        }
    }
    for case in args.cases(5000) {
        run_case(case, args);
        out::eval(0);
    }
}
