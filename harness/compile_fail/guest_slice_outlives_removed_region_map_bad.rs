#![allow(unused_imports, unused_variables, unused_mut, unused_assignments)]
use std::sync::atomic::{AtomicU32, Ordering};
use vm_memory::{Bytes, ByteValued, GuestAddress, GuestAddressSpace, GuestMemory, GuestMemoryAtomic, GuestMemoryMmap, GuestMemoryRegion, MmapRegion, VolatileMemory, VolatileSlice};

fn main() {
    let s;
    {
        let gm = GuestMemoryMmap::<()>::from_ranges(&[(GuestAddress(0), 4096)]).unwrap();
        let (gm2, _h) = gm.remove_region(GuestAddress(0), 4096).unwrap();
        let _ = gm2.num_regions();
        s = gm.get_slice(GuestAddress(8), 8).unwrap();
    }
    let _ = s.len();
}
