#![allow(unused_imports, unused_variables, unused_mut, unused_assignments)]
use std::sync::atomic::{AtomicU32, Ordering};
use vm_memory::{Bytes, ByteValued, GuestAddress, GuestAddressSpace, GuestMemory, GuestMemoryAtomic, GuestMemoryMmap, GuestMemoryRegion, MmapRegion, VolatileMemory, VolatileSlice};

fn main() {
    let mut buf = [0u8; 16];
    let s;
    {
        let vs = VolatileSlice::from(&mut buf[..]);
        s = vs.subslice(0, 4).unwrap();
    }
    let _ = s.len();
}
