#![allow(unused_imports, unused_variables, unused_mut, unused_assignments)]
use std::sync::atomic::{AtomicU32, Ordering};
use vm_memory::{Bytes, ByteValued, GuestAddress, GuestAddressSpace, GuestMemory, GuestMemoryAtomic, GuestMemoryMmap, GuestMemoryRegion, MmapRegion, VolatileMemory, VolatileSlice};

fn main() {
    let mut x = 5u64;
    let vs;
    {
        vs = x.as_bytes();
    }
    let _ = vs.len();
}
