#![allow(unused_imports, unused_variables, unused_mut, unused_assignments)]
use std::sync::atomic::{AtomicU32, Ordering};
use vm_memory::{Bytes, ByteValued, GuestAddress, GuestAddressSpace, GuestMemory, GuestMemoryAtomic, GuestMemoryMmap, GuestMemoryRegion, MmapRegion, VolatileMemory, VolatileSlice};

fn main() {
    let gm = GuestMemoryMmap::<()>::from_ranges(&[(GuestAddress(0), 4096)]).unwrap();
    let reg;
    {
        reg = gm.find_region(GuestAddress(0)).unwrap();
    }
    let _ = reg.len();
}
