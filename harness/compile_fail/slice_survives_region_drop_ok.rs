#![allow(unused_imports, unused_variables, unused_mut, unused_assignments)]
use std::sync::atomic::{AtomicU32, Ordering};
use vm_memory::{Bytes, ByteValued, GuestAddress, GuestAddressSpace, GuestMemory, GuestMemoryAtomic, GuestMemoryMmap, GuestMemoryRegion, MmapRegion, VolatileMemory, VolatileSlice};

fn main() {
    let region = MmapRegion::<()>::new(4096).unwrap();
    let s = region.get_slice(0, 8).unwrap();
    let _ = s.len();
    drop(region);
}
