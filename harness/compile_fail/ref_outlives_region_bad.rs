#![allow(unused_imports, unused_variables, unused_mut, unused_assignments)]
use std::sync::atomic::{AtomicU32, Ordering};
use vm_memory::{Bytes, ByteValued, GuestAddress, GuestAddressSpace, GuestMemory, GuestMemoryAtomic, GuestMemoryMmap, GuestMemoryRegion, MmapRegion, VolatileMemory, VolatileSlice};

fn main() {
    let r;
    {
        let region = MmapRegion::<()>::new(4096).unwrap();
        r = region.get_ref::<u32>(0).unwrap();
    }
    let _ = r.load();
}
