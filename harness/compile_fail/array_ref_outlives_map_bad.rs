#![allow(unused_imports, unused_variables, unused_mut, unused_assignments)]
use std::sync::atomic::{AtomicU32, Ordering};
use vm_memory::{Bytes, ByteValued, GuestAddress, GuestAddressSpace, GuestMemory, GuestMemoryAtomic, GuestMemoryMmap, GuestMemoryRegion, MmapRegion, VolatileMemory, VolatileSlice};

fn main() {
    let a;
    {
        let gm = GuestMemoryMmap::<()>::from_ranges(&[(GuestAddress(0), 4096)]).unwrap();
        a = gm.get_slice(GuestAddress(0), 16).unwrap();
    }
    let _ = a.get_array_ref::<u16>(0, 4).unwrap().len();
}
